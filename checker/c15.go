package main

import (
	"regexp"
	"encoding/json"
	"fmt"
	"go/ast"
	"go/token"
	"go/types"
	"os"
	"path/filepath"
	"sort"
	"strings"

	"golang.org/x/tools/go/packages"
	"golang.org/x/tools/go/ssa"
)

func init() {
	register(&Prop{
		ID:        "C15",
		Technique: "blocking-operation classifier over SSA with goroutine-context computed from the call graph, and a closed-on-shutdown channel fixpoint",
		Explanation: "Every channel send, receive, select and WaitGroup.Wait in connection.go, muxer, protocol and protocol/*/{client,server}.go is enumerated and must be non-blocking (select with default, or a send on a channel audited as buffered single-shot) or wake-able *in the goroutine context it runs in*. " +
			"The set W of channels that are closed when the connection ends is computed as a least fixpoint inside package protocol: muxerDoneChan is the axiom (the muxer closes it); a channel closed by a loop on exit joins W once every blocking operation of that loop is wake-able by W. " +
			"Engine loops must be wake-able by W; exported client/server API methods by W (through DoneChan()); functions reachable from a MessageHandlerFunc run on the protocol's own recvLoop goroutine, where DoneChan()/recvDoneChan cannot fire (they close only after recvLoop returns), so only default, timers, contexts, muxerDoneChan or an audited buffered channel count there. " +
			"Genuine unsafe sites on today's tree are listed in known_findings.json one key per site; any other unsafe site is a violation.",
		Assumptions: []string{"user callbacks return", "wake-able operations are eventually scheduled (liveness/fairness is not decided)", "goroutine-leak freedom in full generality is not decided: only that no enumerated operation can block forever once the connection ends"},
		Run:         runC15,
	})
}

type blockOp struct {
	fn    *ssa.Function
	instr ssa.Instruction
	kind  string   // send, recv, select, wait
	recvs []string // channel descs of receive alternatives
	wakes []string // the same channels traced to their origin through locals and closure captures (done := c.DoneChan())
	sends []string // channel descs of send alternatives
	dflt  bool
	desc  string
	poll  map[string]bool // timer alternatives whose branch leads back to this very select (a polling loop): the timer re-arms, it does not end the wait
}

func blockingOps(fn *ssa.Function) []blockOp {
	var out []blockOp
	for _, b := range fn.Blocks {
		for _, in := range b.Instrs {
			switch x := in.(type) {
			case *ssa.Send:
				out = append(out, blockOp{fn: fn, instr: x, kind: "send", sends: []string{poppedChanDesc(x.Chan)}, desc: desc(x.Chan) + "<-"})
			case *ssa.UnOp:
				if x.Op == token.ARROW {
					out = append(out, blockOp{fn: fn, instr: x, kind: "recv", recvs: []string{timerChanDesc(x.X)}, wakes: []string{desc(chanOrigin(x.X, 0))}, desc: "<-" + desc(x.X)})
				}
			case *ssa.Select:
				op := blockOp{fn: fn, instr: x, kind: "select", dflt: !x.Blocking, desc: desc(x)}
				for _, st := range x.States {
					if st.Dir == types.SendOnly {
						op.sends = append(op.sends, desc(st.Chan))
					} else {
						op.recvs = append(op.recvs, timerChanDesc(st.Chan))
						op.wakes = append(op.wakes, desc(chanOrigin(st.Chan, 0)))
					}
				}
				for i, st := range x.States {
					if st.Dir != types.SendOnly && isTimerOrCtx(timerChanDesc(st.Chan)) && !strings.Contains(timerChanDesc(st.Chan), "context.Context.Done(") {
						if body := selectCaseBody(x, i); body != nil && reachesBlock(body, x.Block()) {
							if op.poll == nil {
								op.poll = map[string]bool{}
							}
							op.poll[timerChanDesc(st.Chan)] = true
							op.poll[desc(chanOrigin(st.Chan, 0))] = true
						}
					}
				}
				out = append(out, op)
			case ssa.CallInstruction:
				if _, isGo := x.(*ssa.Go); isGo {
					continue
				}
				if calleeName(x.Common()) == "sync.(*WaitGroup).Wait" {
					out = append(out, blockOp{fn: fn, instr: in, kind: "wait", desc: "WaitGroup.Wait(" + desc(x.Common().Args[0]) + ")"})
				}
			}
		}
	}
	return out
}

// selectCaseBody: the block control reaches when state i of the select fires.
func selectCaseBody(sel *ssa.Select, i int) *ssa.BasicBlock {
	for _, r := range *sel.Referrers() {
		ex, ok := r.(*ssa.Extract)
		if !ok || ex.Index != 0 {
			continue
		}
		for _, u := range *ex.Referrers() {
			bo, ok := u.(*ssa.BinOp)
			if !ok || bo.Op != token.EQL {
				continue
			}
			k, ok := bo.Y.(*ssa.Const)
			if !ok || k.Value == nil || k.Int64() != int64(i) {
				continue
			}
			for _, v := range *bo.Referrers() {
				if iff, ok := v.(*ssa.If); ok {
					return iff.Block().Succs[0]
				}
			}
		}
	}
	return nil
}

// poppedChanDesc: a channel that was itself received from a channel-of-channels field (the per-request result channel
// idiom: popped with a non-blocking select, possibly nil) is named after that field, whether the pop is written inline
// (a phi of the received value and nil) or in a small closure/helper that returns it.
func poppedChanDesc(ch ssa.Value) string {
	var fieldOf func(v ssa.Value, d int) string
	fieldOf = func(v ssa.Value, d int) string {
		if d > 4 || v == nil {
			return ""
		}
		switch x := v.(type) {
		case *ssa.UnOp:
			if x.Op == token.ARROW {
				return desc(x.X)
			}
		case *ssa.Extract:
			// value received in a select state
			if sel, ok := x.Tuple.(*ssa.Select); ok {
				idx := x.Index - 2
				n := 0
				for _, st := range sel.States {
					if st.Dir == types.RecvOnly {
						if n == idx {
							return desc(st.Chan)
						}
						n++
					}
				}
			}
		case *ssa.Phi:
			f := ""
			for _, e := range x.Edges {
				if isNilConst(e) {
					continue
				}
				g := fieldOf(e, d+1)
				if g == "" || f != "" && g != f {
					return ""
				}
				f = g
			}
			return f
		case *ssa.Call:
			var h *ssa.Function
			if mc, ok := x.Call.Value.(*ssa.MakeClosure); ok {
				h, _ = mc.Fn.(*ssa.Function)
			} else {
				h = x.Call.StaticCallee()
			}
			if h == nil || len(h.Blocks) == 0 || len(x.Call.Args) > 1 {
				return ""
			}
			f := ""
			for _, b := range h.Blocks {
				if r, ok := b.Instrs[len(b.Instrs)-1].(*ssa.Return); ok && len(r.Results) == 1 {
					if isNilConst(r.Results[0]) {
						continue
					}
					g := fieldOf(r.Results[0], d+1)
					if g == "" || f != "" && g != f {
						return ""
					}
					f = g
				}
			}
			return f
		}
		return ""
	}
	switch ch.(type) {
	case *ssa.Phi, *ssa.Call:
		if f := fieldOf(ch, 0); f != "" {
			return f
		}
	}
	return desc(ch)
}

// timerChanDesc: the channel's description, marked as a timer channel when it is the C field of a time.Timer or
// time.Ticker whatever the variable holding the timer is called (such a receive always completes or is stopped).
func timerChanDesc(ch ssa.Value) string {
	d := desc(ch)

	if u, ok := ch.(*ssa.UnOp); ok && u.Op == token.MUL {
		if fa, ok := u.X.(*ssa.FieldAddr); ok && fieldName(fa.X.Type(), fa.Field) == "C" {
			ts := strings.TrimPrefix(typeStr(fa.X.Type()), "*")
			if ts == "time.Timer" || ts == "time.Ticker" {
				return ts + ".C(" + d + ")"
			}
		}
	}
	return d
}

// chanOrigin follows a channel value back through loads of single-store locals and closure captures.
func chanOrigin(v ssa.Value, d int) ssa.Value {
	if d > 5 || v == nil {
		return v
	}
	switch x := v.(type) {
	case *ssa.UnOp:
		if x.Op == token.MUL {
			switch a := x.X.(type) {
			case *ssa.Alloc:
				if st := singleStore(a); st != nil {
					return chanOrigin(st, d+1)
				}
			case *ssa.FreeVar:
				fnc := a.Parent()
				if fnc == nil || fnc.Parent() == nil {
					return v
				}
				for i, fv := range fnc.FreeVars {
					if fv != a {
						continue
					}
					for _, in := range fnInstrs(fnc.Parent()) {
						if mc, ok := in.(*ssa.MakeClosure); ok && mc.Fn == ssa.Value(fnc) && i < len(mc.Bindings) {
							if al, ok := mc.Bindings[i].(*ssa.Alloc); ok {
								if st := singleStore(al); st != nil {
									return chanOrigin(st, d+1)
								}
							}
						}
					}
				}
			}
		}
	case *ssa.ChangeType:
		return chanOrigin(x.X, d+1)
	}
	return v
}

// opKey is a structural key: function + kind + channel fields involved (no positions).
func opKey(op blockOp) string {
	short := func(s string) string {
		// the protocol's done channel reads the same whatever the receiver expression looks like
		if strings.HasPrefix(s, "call:protocol.(*Protocol).DoneChan(") {
			return "DoneChan()"
		}
		// a captured variable and a local read the same
		s = strings.TrimPrefix(s, "free:")
		// keep the trailing field path of the channel
		if i := strings.LastIndex(s, "."); i >= 0 && !strings.HasPrefix(s, "call:") {
			return s[i+1:]
		}
		return s
	}
	var parts []string
	for _, s := range op.sends {
		parts = append(parts, short(s)+"<-")
	}
	for _, r := range op.recvs {
		parts = append(parts, "<-"+short(r))
	}
	if op.kind == "wait" {
		// WaitGroup.Wait(<receiver expression>.waitGroup) → the field only
		d := strings.TrimSuffix(strings.TrimPrefix(op.desc, "WaitGroup.Wait("), ")")
		parts = append(parts, "WaitGroup.Wait("+short(d)+")")
	}
	if op.dflt {
		parts = append(parts, "default")
	}
	return fmt.Sprintf("%s:%s{%s}", stableFuncKey(op.fn), op.kind, stableClosureNames(strings.Join(parts, ";")))
}

var closureIdxRe = regexp.MustCompile(`\$\d+`)

// stableClosureNames drops the suffix go/ssa gives anonymous functions (f$3 → f): adding or removing an unrelated
// closure renumbers them, and turning a deferred func literal into a deferred method call moves the operation from
// f$1 to f; keys name the enclosing declared function and must not depend on either.
func stableClosureNames(s string) string { return closureIdxRe.ReplaceAllString(s, "") }

func stableFuncKey(fn *ssa.Function) string { return stableClosureNames(ssaFuncKey(fn)) }

func isTimerOrCtx(ch string) bool {
	return strings.HasPrefix(ch, "call:time.After(") || strings.HasSuffix(ch, ".C") && strings.Contains(ch, "imer") || strings.Contains(ch, "time.Timer") || strings.Contains(ch, "time.Ticker") ||
		strings.Contains(ch, "context.Context.Done(") || strings.HasPrefix(ch, "call:time.Tick(") || strings.HasSuffix(ch, "Timer.C") || strings.HasSuffix(ch, "Ticker.C") || strings.HasSuffix(ch, "ticker.C")
}

// engineStrict: judging an operation of the protocol engine's own goroutines. There a timer that only re-arms a
// polling loop is no way out: what the loop polls for is produced by a sibling goroutine that is gone once the
// connection ended, so the wait must also listen to a channel closed on connection end.
var engineStrict bool

// wakeable: the op cannot block forever given the set of wake channel predicates.
func wakeable(op blockOp, wake func(ch string) bool) (bool, string) {
	if op.dflt {
		return true, "default"
	}
	for _, r := range op.recvs {
		if isTimerOrCtx(r) {
			if engineStrict && op.poll[r] {
				continue // re-armed on every round of a polling loop
			}
			return true, "timer/context " + r
		}
		if wake(r) {
			return true, "woken by " + r
		}
	}
	// an audited verdict on this very operation outranks what its channel's origin suggests
	loadAudit()
	if _, audited := auditTable[opKey(op)]; !audited {
		for _, r := range op.wakes {
			if isTimerOrCtx(r) {
				if engineStrict && op.poll[r] {
					continue
				}
				return true, "timer/context " + r
			}
			if wake(r) {
				return true, "woken by " + r + " (kept in a local)"
			}
		}
	}
	return false, ""
}

func suffixIn(ch string, set map[string]bool) bool {
	for s := range set {
		if strings.HasSuffix(ch, s) {
			return true
		}
	}
	return false
}

func runC15(c *Ctx) {
	c.W.buildSSA()
	// ---------------- engine fixpoint in package protocol
	loops := map[string]*ssa.Function{}
	for _, n := range []string{"Protocol.sendLoop", "Protocol.readLoop", "Protocol.recvLoop", "Protocol.stateLoop"} {
		loops[n] = c.SSAFunc("protocol", n)
	}
	start := c.SSAFunc("protocol", "Protocol.Start")
	// goroutines spawned by Start (closures)
	for _, f := range withAnon(start) {
		for _, b := range f.Blocks {
			for _, in := range b.Instrs {
				if g, ok := in.(*ssa.Go); ok {
					if mc, ok := g.Call.Value.(*ssa.MakeClosure); ok {
						loops["Start$go:"+mc.Fn.Name()] = mc.Fn.(*ssa.Function)
					}
				}
			}
		}
	}
	// channels closed by each loop (incl. deferred closures)
	closes := map[string][]string{}
	for name, fn := range loops {
		for _, f := range withAnon(fn) {
			for _, ci := range allCalls(f) {
				if calleeName(ci.Common()) == "close" {
					d := desc(ci.Common().Args[0])
					if i := strings.LastIndex(d, "."); i >= 0 {
						closes[name] = append(closes[name], d[i:])
					}
				}
			}
		}
	}
	W := map[string]bool{".muxerDoneChan": true}
	// muxerRecvChan is closed by the muxer's read loop on exit too (checked in the muxer section)
	W[".muxerRecvChan"] = true
	loopSafe := map[string]bool{}
	for changed := true; changed; {
		changed = false
		for name, fn := range loops {
			if loopSafe[name] {
				continue
			}
			all := true
			for _, f := range withAnon(fn) {
				for _, op := range blockingOps(f) {
					if ok, _ := c.engineOpOK(op, W); !ok {
						all = false
					}
				}
			}
			if all {
				loopSafe[name] = true
				changed = true
				for _, ch := range closes[name] {
					if !W[ch] {
						W[ch] = true
					}
				}
			}
		}
	}
	var wl []string
	for k := range W {
		wl = append(wl, k)
	}
	sort.Strings(wl)
	c.Note("closed-on-connection-end set W = %v", wl)
	for _, want := range []string{".recvDoneChan", ".sendDoneChan", ".doneChan"} {
		c.Check(W[want], "shutdown-closes", "protocol:"+want, start.Pos(), want+" is closed once the connection ends (all operations of its closing goroutine are wake-able)", want+" is not guaranteed to close when the connection ends: something that closes it can block forever")
	}
	engineSeen := map[*ssa.Function]bool{}
	var loopNames []string
	for name := range loops {
		loopNames = append(loopNames, name)
	}
	sort.Strings(loopNames)
	for _, name := range loopNames {
		for _, f := range engineFuncs(loops[name]) {
			if engineSeen[f] {
				continue
			}
			engineSeen[f] = true
			own := false
			for _, g := range withAnon(loops[name]) {
				if g == f {
					own = true
				}
			}
			for _, op := range blockingOps(f) {
				var ok bool
				var why string
				if own {
					ok, why = c.engineOpOK(op, W)
				} else {
					// an unexported helper the loop calls: the protocol's own done channel counts as well (it closes once
					// both loops have ended), Stop()'s channel does not — nobody is obliged to call Stop after the
					// connection ended
					engineStrict = true
					ok, why = wakeableLifted(op, func(ch string) bool {
						return suffixIn(ch, W) || strings.Contains(ch, "DoneChan()") || strings.Contains(ch, ".DoneChan(") || strings.HasSuffix(ch, ".doneChan")
					}, 2)
					engineStrict = false
					if !ok {
						ok, why = c.auditedNonBlocking(op)
					}
				}
				bad := "engine goroutine " + name + " can block forever here after the connection ends: " + op.desc
				if len(op.poll) > 0 {
					bad = "engine goroutine " + name + " can poll forever here after the connection ends (the timer case only re-arms the loop, and no other case fires once the connection is gone): " + op.desc
				}
				c.Check(ok, "engine-op", opKey(op), op.instr.Pos(), why, bad)
			}
		}
	}
	c.Floor("engine-op", 15)
	// a timer whose channel was already received from (the timer fired and a select took the value) must not be drained
	// again: the idiom `if !t.Stop() { <-t.C }` then waits for a value that never comes. After the fired case the timer
	// variable has to be cleared or replaced before any such drain can run.
	for _, name := range loopNames {
		fn := loops[name]
		fns := withAnon(fn)
		for _, in := range fnInstrs(fn) {
			al, ok := in.(*ssa.Alloc)
			if !ok || !strings.HasSuffix(typeStr(al.Type()), "**time.Timer") {
				continue
			}
			vname := al.Comment
			isVar := func(v ssa.Value) bool {
				if v == ssa.Value(al) {
					return true
				}
				fv, ok := v.(*ssa.FreeVar)
				return ok && fv.Name() == vname && strings.HasSuffix(typeStr(fv.Type()), "**time.Timer")
			}
			isTimerC := func(v ssa.Value) bool { // *(&(*timerVar).C)
				u, ok := v.(*ssa.UnOp)
				if !ok || u.Op != token.MUL {
					return false
				}
				fa, ok := u.X.(*ssa.FieldAddr)
				if !ok || fieldName(fa.X.Type(), fa.Field) != "C" {
					return false
				}
				ld, ok := fa.X.(*ssa.UnOp)
				return ok && ld.Op == token.MUL && isVar(ld.X)
			}
			drains := map[*ssa.Function]bool{}
			for _, g := range fns {
				for _, gi := range fnInstrs(g) {
					if u, ok := gi.(*ssa.UnOp); ok && u.Op == token.ARROW && isTimerC(u.X) {
						drains[g] = true
					}
				}
			}
			for changed := true; changed; {
				changed = false
				for _, g := range fns {
					if drains[g] || g == fn {
						continue
					}
					for _, ci := range allCalls(g) {
						if h := resolveCallee(ci.Common()); h != nil && drains[h] {
							drains[g] = true
							changed = true
						}
					}
				}
			}
			if len(drains) == 0 {
				continue
			}
			returnsTimerC := func(h *ssa.Function) bool {
				if h == nil {
					return false
				}
				for _, b := range h.Blocks {
					if r, ok := b.Instrs[len(b.Instrs)-1].(*ssa.Return); ok && len(r.Results) == 1 {
						for _, v := range valuesOfPhi(r.Results[0]) {
							if isTimerC(v) {
								return true
							}
							if cv, isCv := v.(*ssa.ChangeType); isCv && isTimerC(cv.X) {
								return true
							}
						}
					}
				}
				return false
			}
			for _, b := range fn.Blocks {
				for _, bi := range b.Instrs {
					sel, ok := bi.(*ssa.Select)
					if !ok {
						continue
					}
					for i, st := range sel.States {
						if st.Dir == types.SendOnly {
							continue
						}
						fired := isTimerC(st.Chan)
						if cl, isCall := st.Chan.(*ssa.Call); isCall && returnsTimerC(resolveCallee(&cl.Call)) {
							fired = true
						}
						if cv, isCv := st.Chan.(*ssa.ChangeType); isCv && isTimerC(cv.X) {
							fired = true
						}
						if !fired {
							continue
						}
						body := selectCaseBody(sel, i)
						if body == nil {
							continue
						}
						seen := map[*ssa.BasicBlock]bool{}
						q := []*ssa.BasicBlock{body}
						bad := token.NoPos
						for len(q) > 0 && bad == token.NoPos {
							cur := q[0]
							q = q[1:]
							if seen[cur] {
								continue
							}
							seen[cur] = true
							cleared := false
							for _, ci := range cur.Instrs {
								if stt, isSt := ci.(*ssa.Store); isSt && isVar(stt.Addr) {
									cleared = true
									break
								}
								// a helper closure that only re-assigns the variable (and never drains it) clears it as well
								if call, isCall := ci.(ssa.CallInstruction); isCall {
									if h := resolveCallee(call.Common()); h != nil && !drains[h] {
										assigns := false
										for _, hi := range fnInstrs(h) {
											if hs, isHS := hi.(*ssa.Store); isHS && isVar(hs.Addr) {
												assigns = true
											}
										}
										if assigns {
											cleared = true
											break
										}
									}
								}
								if u, isU := ci.(*ssa.UnOp); isU && u.Op == token.ARROW && isTimerC(u.X) {
									bad = u.Pos()
									break
								}
								if call, isCall := ci.(ssa.CallInstruction); isCall {
									if h := resolveCallee(call.Common()); h != nil && drains[h] {
										bad = call.Pos()
										break
									}
								}
							}
							if cleared || bad != token.NoPos {
								continue
							}
							q = append(q, cur.Succs...)
						}
						c.Check(bad == token.NoPos, "engine-op", stableFuncKey(fn)+":timer-fired-then-drained:"+vname, sel.Pos(), "after the timer fired its variable is cleared before any drain of its channel can run", "after the select has received the timer's value, "+vname+" is still set when the drain at "+c.pos(bad)+" runs: Stop() reports false for a fired timer and `<-"+vname+".C` then waits forever — the engine goroutine leaks")
					}
				}
			}
		}
	}
	// doneChan pairing: closed only by the goroutine that waited for both loop-done channels; stopChan closed once (onceStop)
	c.checkCloseOwners()

	// ---------------- other functions of package protocol (API context: callers' goroutines)
	inLoops := map[*ssa.Function]bool{}
	for _, fn := range loops {
		for _, f := range engineFuncs(fn) {
			inLoops[f] = true
		}
	}
	// handler context
	handlers := c.handlerRoots()
	H := map[*ssa.Function]bool{}
	var addH func(f *ssa.Function)
	addH = func(f *ssa.Function) {
		if f == nil || H[f] || len(f.Blocks) == 0 || f.Pkg == nil || !strings.HasPrefix(f.Pkg.Pkg.Path(), modPath) {
			return
		}
		H[f] = true
		for _, b := range f.Blocks {
			for _, in := range b.Instrs {
				switch x := in.(type) {
				case *ssa.Go:
					continue // runs on another goroutine
				case ssa.CallInstruction:
					if sc := x.Common().StaticCallee(); sc != nil {
						addH(sc)
					}
					if mc, ok := x.Common().Value.(*ssa.MakeClosure); ok {
						addH(mc.Fn.(*ssa.Function))
					}
				case *ssa.MakeClosure:
					// closure created in handler context; conservatively assume it is called there unless it is only
					// handed to a goroutine launcher (go statement, sync.WaitGroup.Go)
					onlyGo := true
					for _, u := range referrersOf(x) {
						if _, isGo := u.(*ssa.Go); isGo {
							continue
						}
						if ci, isCall := u.(ssa.CallInstruction); isCall && calleeName(ci.Common()) == "sync.(*WaitGroup).Go" {
							continue
						}
						onlyGo = false
					}
					if !onlyGo {
						addH(x.Fn.(*ssa.Function))
					}
				}
			}
		}
	}
	for _, h := range handlers {
		addH(h)
	}
	c.Note("handler-context closure: %d functions from %d MessageHandlerFunc roots", len(H), len(handlers))
	if len(handlers) < 28 {
		c.Undecided("only %d MessageHandlerFunc roots resolved (30 confirmed by hand)", len(handlers))
	}
	Wh := map[string]bool{".muxerDoneChan": true}
	nH := 0
	var hfns []*ssa.Function
	for f := range H {
		hfns = append(hfns, f)
	}
	sort.Slice(hfns, func(i, j int) bool { return ssaFuncKey(hfns[i]) < ssaFuncKey(hfns[j]) })
	for _, f := range hfns {
		if inLoops[f] {
			continue
		}
		for _, op := range blockingOps(f) {
			nH++
			ok, why := wakeable(op, func(ch string) bool { return suffixIn(ch, Wh) })
			if ok {
				c.Ok("handler-op", opKey(op), op.instr.Pos(), why)
				continue
			}
			for _, st := range c.opSites(op, func(g *ssa.Function) bool { return H[g] && !inLoops[g] }, 2) {
				ok, why = c.auditedNonBlocking(st.op)
				c.Check(ok, "handler-op", opKey(st.op), st.op.instr.Pos(), why,
					"runs on the protocol's recvLoop goroutine (handler context) and can block forever: "+op.desc+" — DoneChan()/recvDoneChan cannot fire while recvLoop is inside a handler, so neither Stop() nor connection shutdown wakes it")
			}
		}
	}
	c.Note("handler-context blocking operations: %d", nH)

	// ---------------- API context: exported methods of protocol/* Client/Server + connection + protocol package non-loop functions
	api := map[*ssa.Function]bool{}
	for _, p := range c.W.Pkgs {
		rel := relPkg(p.PkgPath)
		if !(strings.HasPrefix(rel, "protocol") || rel == ".") {
			continue
		}
		for _, fn := range c.pkgFuncs(rel) {
			if H[fn] || inLoops[fn] {
				continue
			}
			api[fn] = true
		}
	}
	var afns []*ssa.Function
	for f := range api {
		afns = append(afns, f)
	}
	sort.Slice(afns, func(i, j int) bool { return ssaFuncKey(afns[i]) < ssaFuncKey(afns[j]) })
	nA := 0
	for _, f := range afns {
		for _, op := range blockingOps(f) {
			nA++
			ok, why := wakeableLifted(op, func(ch string) bool {
				return suffixIn(ch, W) || strings.Contains(ch, "DoneChan()") || strings.Contains(ch, ".DoneChan(") || strings.HasSuffix(ch, ".doneChan") || strings.HasSuffix(ch, ".connClosedChan") || strings.HasSuffix(ch, ".stopChan")
			}, 2)
			if ok {
				c.Ok("api-op", opKey(op), op.instr.Pos(), why)
				continue
			}
			for _, st := range c.opSites(op, func(g *ssa.Function) bool { return api[g] }, 2) {
				ok, why = c.auditedNonBlocking(st.op)
				c.Check(ok, "api-op", opKey(st.op), st.op.instr.Pos(), why, "caller-context operation can block forever after the protocol/connection is done: "+op.desc)
			}
		}
	}
	c.Note("API/connection-context blocking operations: %d", nA)

	// ---------------- a wait for the protocol to finish is made without a lock the handlers need
	// Stop()-like code that waits for the done channel while holding a mutex a message handler also takes can never
	// return when a handler is in flight: the handler blocks on the mutex, recvLoop cannot exit, the done channel never closes.
	{
		type mkey struct{ typ, field string }
		lockOf := func(ci ssa.CallInstruction) (mkey, string, bool) {
			cn := calleeName(ci.Common())
			kind := ""
			switch cn {
			case "sync.(*Mutex).Lock", "sync.(*RWMutex).Lock", "sync.(*RWMutex).RLock":
				kind = "lock"
			case "sync.(*Mutex).Unlock", "sync.(*RWMutex).Unlock", "sync.(*RWMutex).RUnlock":
				kind = "unlock"
			default:
				return mkey{}, "", false
			}
			if len(ci.Common().Args) == 0 {
				return mkey{}, "", false
			}
			fa, ok := ci.Common().Args[0].(*ssa.FieldAddr)
			if !ok {
				return mkey{}, "", false
			}
			return mkey{strings.TrimPrefix(typeStr(fa.X.Type()), "*"), fieldName(fa.X.Type(), fa.Field)}, kind, true
		}
		handlerLocks := map[mkey]string{}
		for f := range H {
			if inLoops[f] {
				continue
			}
			for _, ci := range allCalls(f) {
				if _, isDefer := ci.(*ssa.Defer); isDefer {
					continue
				}
				if mk, kind, ok := lockOf(ci); ok && kind == "lock" {
					handlerLocks[mk] = ssaFuncKey(f)
				}
			}
		}
		doneLike := func(ch string) bool {
			return strings.Contains(ch, "DoneChan()") || strings.Contains(ch, ".DoneChan(") || strings.HasSuffix(ch, ".doneChan") || strings.HasSuffix(ch, ".recvDoneChan")
		}
		nW := 0
		for _, f := range afns {
			if H[f] {
				continue
			}
			for _, op := range blockingOps(f) {
				if op.dflt || len(op.sends) > 0 || len(op.recvs) == 0 {
					continue
				}
				all := true
				for i, r := range op.recvs {
					w := ""
					if i < len(op.wakes) {
						w = op.wakes[i]
					}
					if !doneLike(r) && !doneLike(w) {
						all = false
					}
				}
				if !all {
					continue
				}
				nW++
				// locks that may be held here
				held := map[mkey]token.Pos{}
				for _, ci := range allCalls(f) {
					if _, isDefer := ci.(*ssa.Defer); isDefer {
						continue
					}
					mk, kind, ok := lockOf(ci)
					if !ok || kind != "lock" {
						continue
					}
					// forward walk from the Lock to the wait, stopping at a (non-deferred) Unlock of the same mutex
					type pt struct {
						b *ssa.BasicBlock
						i int
					}
					seenB := map[*ssa.BasicBlock]bool{}
					var q []pt
					lb := ci.Block()
					for i, in := range lb.Instrs {
						if in == ci.(ssa.Instruction) {
							q = append(q, pt{lb, i + 1})
						}
					}
					found := false
					for len(q) > 0 && !found {
						cur := q[0]
						q = q[1:]
						released := false
						for i := cur.i; i < len(cur.b.Instrs); i++ {
							in := cur.b.Instrs[i]
							if in == op.instr {
								found = true
								break
							}
							if cj, isCall := in.(ssa.CallInstruction); isCall {
								if _, isDefer := in.(*ssa.Defer); !isDefer {
									if mk2, kind2, ok2 := lockOf(cj); ok2 && kind2 == "unlock" && mk2 == mk {
										released = true
										break
									}
								}
							}
						}
						if found || released {
							continue
						}
						for _, sb := range cur.b.Succs {
							if !seenB[sb] {
								seenB[sb] = true
								q = append(q, pt{sb, 0})
							}
						}
					}
					if found {
						held[mk] = ci.Pos()
					}
				}
				bad := ""
				for mk := range held {
					if hf, ok := handlerLocks[mk]; ok {
						bad = mk.field + " (taken by " + hf + ")"
					}
				}
				c.Check(bad == "", "done-wait-lock-free", opKey(op), op.instr.Pos(), "the wait for the protocol to finish holds no mutex a message handler takes", "waits for the protocol's done channel while holding "+bad+": a handler in flight blocks on that mutex, the receive loop cannot exit, and the wait never ends")
			}
		}
		c.Note("waits for protocol completion examined for held handler locks: %d", nW)
	}

	// ---------------- muxer
	for _, fn := range c.pkgFuncs("muxer") {
		for _, op := range blockingOps(fn) {
			ok, why := wakeable(op, func(ch string) bool { return strings.HasSuffix(ch, ".doneChan") })
			if !ok {
				ok, why = c.auditedNonBlocking(op)
			}
			c.Check(ok, "muxer-op", opKey(op), op.instr.Pos(), why, "muxer goroutine can block forever: "+op.desc)
		}
	}
}

// wakeableLifted: wakeable, also when a wake channel reaches the operation as a parameter of an unexported helper: then
// every call site must pass a wake channel in that position.
func wakeableLifted(op blockOp, wake func(ch string) bool, depth int) (bool, string) {
	if ok, why := wakeable(op, wake); ok || depth <= 0 {
		return ok, why
	}
	hasParam := false
	for _, r := range op.recvs {
		if len(r) >= 2 && r[0] == 'p' && r[1] >= '0' && r[1] <= '9' && !strings.Contains(r, ".") {
			hasParam = true
		}
	}
	if !hasParam || op.fn.Parent() != nil || op.fn.Object() == nil || op.fn.Object().Exported() {
		return false, ""
	}
	callers := callersInPkg(op.fn)
	if len(callers) == 0 {
		return false, ""
	}
	why := ""
	for _, ci := range callers {
		op2 := op
		op2.fn = ci.Parent()
		op2.recvs = nil
		for _, r := range op.recvs {
			for i, a := range ci.Common().Args {
				if r == fmt.Sprintf("p%d", i) {
					r = desc(a)
				}
			}
			op2.recvs = append(op2.recvs, r)
		}
		ok, w := wakeableLifted(op2, wake, depth-1)
		if !ok {
			return false, ""
		}
		why = w + " (passed by every caller)"
	}
	return true, why
}

// opSites: the key(s) an operation is judged under. Normally the operation's own key. When the operation sits in a
// helper that has no audit entry of its own but every caller in the same goroutine context has one for the same
// operation (the hand-off was moved out of the audited function into a helper), it is judged once per calling site
// under the caller's key, so that audited and known hand-offs keep their identity when code is merely moved.
type opSite struct {
	op blockOp
}

func (c *Ctx) opSites(op blockOp, inCtx func(*ssa.Function) bool, depth int) []opSite {
	loadAudit()
	if _, ok := auditTable[opKey(op)]; ok || depth <= 0 {
		return []opSite{{op}}
	}
	if op.fn.Parent() == nil && op.fn.Object() != nil && op.fn.Object().Exported() {
		return []opSite{{op}}
	}
	var out []opSite
	for _, ci := range callersInPkg(op.fn) {
		if _, isGo := ci.(*ssa.Go); isGo || !inCtx(ci.Parent()) {
			continue
		}
		sub := func(list []string) []string {
			var r []string
			for _, s := range list {
				for i, a := range ci.Common().Args {
					if s == fmt.Sprintf("p%d", i) {
						s = desc(a)
					}
				}
				r = append(r, s)
			}
			return r
		}
		op2 := op
		op2.fn = ci.Parent()
		op2.instr = ci
		op2.sends, op2.recvs = sub(op.sends), sub(op.recvs)
		sites := c.opSites(op2, inCtx, depth-1)
		for _, st := range sites {
			if _, ok := auditTable[opKey(st.op)]; !ok {
				return []opSite{{op}} // some calling site is not covered: report the operation where it is
			}
		}
		out = append(out, sites...)
	}
	// the helper handed over as a function value (once.Do(c.cleanup)): judged at the hand-over site
	for _, ci := range funcValueUsesInPkg(op.fn) {
		if _, isGo := ci.(*ssa.Go); isGo || !inCtx(ci.Parent()) {
			continue
		}
		cn := calleeName(ci.Common())
		if cn != "sync.(*Once).Do" {
			return []opSite{{op}}
		}
		op2 := op
		op2.fn = ci.Parent()
		op2.instr = ci
		sites := c.opSites(op2, inCtx, depth-1)
		for _, st := range sites {
			if _, ok := auditTable[opKey(st.op)]; !ok {
				return []opSite{{op}}
			}
		}
		out = append(out, sites...)
	}
	if len(out) == 0 {
		return []opSite{{op}}
	}
	return out
}

// engineOpOK: operation of an engine loop is wake-able by W (or audited).
// valuesOfPhi: the incoming values of a (possibly nested) phi, or the value itself.
func valuesOfPhi(v ssa.Value) []ssa.Value {
	var out []ssa.Value
	seen := map[ssa.Value]bool{}
	var walk func(x ssa.Value, d int)
	walk = func(x ssa.Value, d int) {
		if seen[x] || d > 5 {
			return
		}
		seen[x] = true
		if ph, ok := x.(*ssa.Phi); ok {
			for _, e := range ph.Edges {
				walk(e, d+1)
			}
			return
		}
		out = append(out, x)
	}
	walk(v, 0)
	return out
}

// engineFuncs: what runs on an engine goroutine — the loop, its closures, and the unexported functions of its own
// package it calls statically (not what it starts with go, and not exported API such as SendError, which callers on
// other goroutines share and which is judged in the API section).
func engineFuncs(fn *ssa.Function) []*ssa.Function {
	var out []*ssa.Function
	seen := map[*ssa.Function]bool{}
	var add func(f *ssa.Function, d int)
	add = func(f *ssa.Function, d int) {
		if f == nil || seen[f] || len(f.Blocks) == 0 || d > 4 {
			return
		}
		seen[f] = true
		out = append(out, f)
		for _, a := range f.AnonFuncs {
			add(a, d)
		}
		for _, ci := range allCalls(f) {
			if _, isGo := ci.(*ssa.Go); isGo {
				continue
			}
			h := ci.Common().StaticCallee()
			if h == nil || fnPkg(h) == nil || fnPkg(h) != fnPkg(fn) || h.Object() == nil || h.Object().Exported() {
				continue
			}
			add(h, d+1)
		}
	}
	add(fn, 0)
	return out
}

func (c *Ctx) engineOpOK(op blockOp, W map[string]bool) (bool, string) {
	engineStrict = true
	defer func() { engineStrict = false }()
	if ok, why := wakeable(op, func(ch string) bool { return suffixIn(ch, W) }); ok {
		return true, why
	}
	// bare receive on a W channel
	return c.auditedNonBlocking(op)
}

// auditedNonBlocking: per-site table (audit/c15_audited.json, committed, never written at run time) of operations
// the classifier cannot discharge by itself and that were confirmed safe by reading the code; one reason per key,
// with the number of sites that may share the key.
type auditEntry struct {
	Rule    string `json:"rule"`
	Key     string `json:"key"`
	Count   int    `json:"count"`
	Verdict string `json:"verdict"`
	Reason  string `json:"reason"`
}

var auditTable map[string]*auditEntry
var auditUsed = map[string]map[ssa.Instruction]bool{}

func loadAudit() {
	if auditTable != nil {
		return
	}
	auditTable = map[string]*auditEntry{}
	b, err := os.ReadFile(filepath.Join(verifDir, "audit", "c15_audited.json"))
	if err != nil {
		return
	}
	var f struct {
		Entries []auditEntry `json:"entries"`
	}
	if json.Unmarshal(b, &f) != nil {
		return
	}
	for i := range f.Entries {
		e := &f.Entries[i]
		auditTable[e.Key] = e
	}
}

func (c *Ctx) auditedNonBlocking(op blockOp) (bool, string) {
	loadAudit()
	k := opKey(op)
	if e, ok := auditTable[k]; ok && e.Verdict == "safe" {
		if auditUsed[k] == nil {
			auditUsed[k] = map[ssa.Instruction]bool{}
		}
		auditUsed[k][op.instr] = true
		if len(auditUsed[k]) <= e.Count {
			r := e.Reason
			if len(r) > 220 {
				r = r[:220] + "…"
			}
			return true, "audited (" + fmt.Sprint(e.Count) + " site(s)): " + r
		}
		return false, ""
	}
	// locally provable: send on a channel made in this function with capacity >= 1 and exactly one send
	if op.kind == "send" {
		if s, ok := op.instr.(*ssa.Send); ok {
			if mk, ok := s.Chan.(*ssa.MakeChan); ok {
				if k, ok := mk.Size.(*ssa.Const); ok && k.Int64() >= 1 && !inLoop(s.Block()) {
					return true, "send on a locally made buffered channel"
				}
			}
		}
	}
	return false, ""
}

func (c *Ctx) handlerRoots() []*ssa.Function {
	var out []*ssa.Function
	seen := map[*ssa.Function]bool{}
	c.eachFuncDecl(func(rel string) bool { return strings.HasPrefix(rel, "protocol/") }, func(p *packages.Package, fd *ast.FuncDecl, obj *types.Func) {
		ast.Inspect(fd.Body, func(n ast.Node) bool {
			cl, ok := n.(*ast.CompositeLit)
			if !ok || !isNamed(p.TypesInfo.TypeOf(cl), "protocol", "ProtocolConfig") {
				return true
			}
			for _, el := range cl.Elts {
				kv, ok := el.(*ast.KeyValueExpr)
				if !ok || kv.Key.(*ast.Ident).Name != "MessageHandlerFunc" {
					continue
				}
				var id *ast.Ident
				switch v := unparen(kv.Value).(type) {
				case *ast.SelectorExpr:
					id = v.Sel
				case *ast.Ident:
					id = v
				}
				if id == nil {
					continue
				}
				if f, ok := p.TypesInfo.Uses[id].(*types.Func); ok {
					if fn := c.W.Prog.FuncValue(f); fn != nil && !seen[fn] {
						seen[fn] = true
						out = append(out, fn)
					}
				}
			}
			return true
		})
	})
	return out
}

func (c *Ctx) checkCloseOwners() {
	owners := map[string][]string{
		".doneChan":     {"protocol.(*Protocol).Start"},
		".stopChan":     {"protocol.(*Protocol).Stop"},
		".recvDoneChan": {"protocol.(*Protocol).recvLoop"},
		".sendDoneChan": {"protocol.(*Protocol).sendLoop"},
	}
	n := 0
	for _, fn := range c.pkgFuncs("protocol") {
		for _, ci := range allCalls(fn) {
			if calleeName(ci.Common()) != "close" {
				continue
			}
			d := desc(ci.Common().Args[0])
			for suf, own := range owners {
				if !strings.HasSuffix(d, suf) {
					continue
				}
				n++
				fk := stableFuncKey(fn)
				ok := false
				for _, o := range own {
					if fk == o {
						ok = true
					}
				}
				c.Check(ok, "close-owner", suf+":"+fk, ci.Pos(), "closed by its single owner", suf+" is closed in "+fk+": a second closer panics or closes early")
			}
		}
	}
	if n < 4 {
		c.Bad("close-owner", "protocol", 0, "expected 4 lifecycle channel closes in package protocol, found %d", n)
	}
	// doneChan closer waits for both loop-done channels first
	st := c.SSAFunc("protocol", "Protocol.Start")
	for _, f := range withAnon(st) {
		closes := false
		for _, ci := range allCalls(f) {
			if calleeName(ci.Common()) == "close" && strings.HasSuffix(desc(ci.Common().Args[0]), ".doneChan") {
				closes = true
			}
		}
		if !closes {
			continue
		}
		var recvs []string
		var closeIdx int = -1
		i := 0
		for _, b := range f.Blocks {
			for _, in := range b.Instrs {
				i++
				if u, ok := in.(*ssa.UnOp); ok && u.Op == token.ARROW {
					recvs = append(recvs, desc(u.X))
				}
				if ci, ok := in.(ssa.CallInstruction); ok && calleeName(ci.Common()) == "close" {
					closeIdx = len(recvs)
				}
			}
		}
		got := strings.Join(recvs, ",")
		c.Check(closeIdx == 2 && strings.Contains(got, ".recvDoneChan") && strings.Contains(got, ".sendDoneChan"), "done-after-loops", stableFuncKey(f), f.Pos(), "doneChan closes only after both loop-done channels fired", "doneChan is closed without having waited for recvDoneChan and sendDoneChan ("+got+")")
	}
	// Stop and Connection.shutdown are Once-guarded
	for _, spec := range [][3]string{{"protocol", "Protocol.Stop", ".onceStop"}, {".", "Connection.shutdown", ".onceShutdown"}, {"muxer", "Muxer.Stop", ".onceStop"}} {
		fn := c.SSAFunc(spec[0], spec[1])
		ok := false
		for _, ci := range allCalls(fn) {
			if calleeName(ci.Common()) == "sync.(*Once).Do" && strings.HasSuffix(desc(ci.Common().Args[0]), spec[2]) {
				ok = true
			}
		}
		closesDirect := false
		for _, ci := range allCalls(fn) {
			if calleeName(ci.Common()) == "close" {
				closesDirect = true
			}
		}
		c.Check(ok && !closesDirect, "once-guarded", spec[0]+"."+spec[1], fn.Pos(), "channel closes happen inside a sync.Once", spec[1]+" can close its channels twice (not Once-guarded)")
	}
}
