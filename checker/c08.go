package main

import (
	"fmt"
	"go/types"
	"sort"
	"strings"

	"golang.org/x/tools/go/ssa"
)

func init() {
	register(&Prop{
		ID:        "C08",
		Technique: "type-directed enumeration of output types + guard analysis (failing edge cannot reach success, loop coverage, same-object identity) over the decode closure",
		Explanation: "For every ledger type that implements Assets() *MultiAsset[MultiAssetTypeOutput] and is decoded from the wire, the decode closure (the output's UnmarshalCBOR, the UnmarshalCBOR of the value type holding the assets, and their static callees) must contain a range guard on asset quantities: a branch on (*big.Int).IsUint64 (or Sign/BitLen/Cmp equivalents) of a quantity obtained from the very multi-asset object that is stored as the result, inside the iteration over its policies and assets, whose failing edge cannot reach a success return, and which no success path that stores assets can bypass except when the asset map is nil. " +
			"Alternatively a uint64 quantity type would discharge it by type. Every era output type (Mary..Dijkstra) must resolve to such a guarded value type.",
		Assumptions: []string{"MultiAsset.Policies/Assets/Asset enumerate exactly the stored quantities", "mint fields are outside the rule (they may be negative)", "coin amounts are uint64 by type"},
		Run:         runC08,
	})
}

func isOutputMultiAssetPtr(t types.Type) bool {
	s := typeStr(t)
	return strings.HasPrefix(s, "*ledger/common.MultiAsset[") && (strings.Contains(s, "MultiAssetTypeOutput") || strings.Contains(s, "*math/big.Int") || strings.Contains(s, "big.Int"))
}

func runC08(c *Ctx) {
	c.W.buildSSA()
	// 1. output types
	type outT struct {
		named *types.Named
		pkg   string
	}
	var outs []outT
	for _, p := range c.W.Pkgs {
		rel := relPkg(p.PkgPath)
		if !strings.HasPrefix(rel, "ledger/") {
			continue
		}
		sc := p.Types.Scope()
		for _, n := range sc.Names() {
			tn, ok := sc.Lookup(n).(*types.TypeName)
			if !ok {
				continue
			}
			named, ok := tn.Type().(*types.Named)
			if !ok {
				continue
			}
			if _, isStruct := named.Underlying().(*types.Struct); !isStruct {
				continue
			}
			ms := types.NewMethodSet(types.NewPointer(named))
			am := ms.Lookup(nil, "Assets")
			um := ms.Lookup(nil, "UnmarshalCBOR")
			if am == nil || um == nil {
				continue
			}
			sig := am.Type().(*types.Signature)
			if sig.Results().Len() != 1 || !isOutputMultiAssetPtr(sig.Results().At(0).Type()) {
				continue
			}
			// must be an output (has Address method), not a value container
			if ms.Lookup(nil, "Address") == nil {
				continue
			}
			outs = append(outs, outT{named, rel})
		}
	}
	sort.Slice(outs, func(i, j int) bool { return typeStr(outs[i].named) < typeStr(outs[j].named) })
	if len(outs) < 3 {
		c.Undecided("only %d multi-asset output types found (Mary, Alonzo, Babbage, Dijkstra expected)", len(outs))
	}
	guardCache := map[string]string{} // function key -> "" ok / reason
	for _, o := range outs {
		key := typeStr(o.named)
		if !holdsOutputAssets(o.named, 0) && !hasInterfaceField(o.named) {
			c.Ok("output-quantity-range", key, o.named.Obj().Pos(), "this era's output cannot carry multi-assets (no asset field)")
			continue
		}
		// decode closure
		var roots []*ssa.Function
		seenT := map[string]bool{}
		var addType func(t types.Type, d int)
		addType = func(t types.Type, d int) {
			if d > 3 {
				return
			}
			if p, ok := t.(*types.Pointer); ok {
				t = p.Elem()
			}
			n, ok := types.Unalias(t).(*types.Named)
			if !ok || seenT[typeStr(n)] {
				return
			}
			seenT[typeStr(n)] = true
			if n.Obj().Pkg() == nil || !strings.HasPrefix(n.Obj().Pkg().Path(), modPath) {
				return
			}
			ms := types.NewMethodSet(types.NewPointer(n))
			if um := ms.Lookup(nil, "UnmarshalCBOR"); um != nil {
				if fn := c.W.Prog.FuncValue(um.Obj().(*types.Func)); fn != nil && len(fn.Blocks) > 0 {
					roots = append(roots, fn)
				}
			}
			if st, ok := n.Underlying().(*types.Struct); ok {
				for i := 0; i < st.NumFields(); i++ {
					ft := st.Field(i).Type()
					// only descend into the fields that can hold the assets
					if holdsOutputAssets(ft, 0) {
						addType(ft, d+1)
					}
				}
			}
		}
		addType(o.named, 0)
		closure := map[*ssa.Function]bool{}
		var addFn func(f *ssa.Function, d int)
		addFn = func(f *ssa.Function, d int) {
			if f == nil || closure[f] || len(f.Blocks) == 0 || d > 3 || f.Pkg == nil || !strings.HasPrefix(f.Pkg.Pkg.Path(), modPath+"/ledger") {
				return
			}
			closure[f] = true
			for _, ci := range allCalls(f) {
				addFn(ci.Common().StaticCallee(), d+1)
				// reflection model: cbor.Decode(x, &dst) runs the UnmarshalCBOR of dst's static type (and of its asset-holding fields)
				cn := calleeName(ci.Common())
				if (cn == "cbor.Decode" || cn == "cbor.DecodeGeneric" || cn == "cbor.DecodeLenient") && len(ci.Common().Args) == 2 {
					dst := ci.Common().Args[1]
					if mi, ok := dst.(*ssa.MakeInterface); ok {
						dst = mi.X
					}
					if pt, ok := dst.Type().(*types.Pointer); ok {
						before := len(roots)
						addType(pt.Elem(), 1)
						for _, r := range roots[before:] {
							addFn(r, d+1)
						}
					}
				}
			}
		}
		for i := 0; i < len(roots); i++ {
			addFn(roots[i], 0)
		}
		found := ""
		var reasons []string
		var fns []*ssa.Function
		for f := range closure {
			fns = append(fns, f)
		}
		sort.Slice(fns, func(i, j int) bool { return ssaFuncKey(fns[i]) < ssaFuncKey(fns[j]) })
		for _, f := range fns {
			fk := ssaFuncKey(f)
			r, done := guardCache[fk]
			if !done {
				r = quantityGuardProblem(f)
				guardCache[fk] = r
			}
			if r == "" {
				found = fk
				break
			}
			if r != "no-guard" {
				reasons = append(reasons, fk+": "+r)
			}
		}
		c.Check(found != "", "output-quantity-range", key, o.named.Obj().Pos(), "asset quantities are range-checked (IsUint64) on decode in "+found,
			"no effective range check on output asset quantities in the decode closure of "+key+": a negative or >2^64-1 quantity is accepted"+joinReasons(reasons))
	}
}

func joinReasons(r []string) string {
	if len(r) == 0 {
		return ""
	}
	return " (" + strings.Join(r, "; ") + ")"
}

func holdsOutputAssets(t types.Type, d int) bool {
	if d > 3 {
		return false
	}
	if isOutputMultiAssetPtr(t) {
		return true
	}
	if p, ok := t.(*types.Pointer); ok {
		t = p.Elem()
	}
	if st, ok := t.Underlying().(*types.Struct); ok {
		for i := 0; i < st.NumFields(); i++ {
			if holdsOutputAssets(st.Field(i).Type(), d+1) {
				return true
			}
		}
	}
	return false
}

// quantityGuardProblem returns "" if f contains an effective range guard, "no-guard" if none at all, else the defect.
func quantityGuardProblem(f *ssa.Function) string {
	succ := successReturns(f)
	type guard struct {
		b       *ssa.BasicBlock
		failIdx int
		q       ssa.Value
	}
	var guards []guard
	for _, b := range f.Blocks {
		iff, ok := b.Instrs[len(b.Instrs)-1].(*ssa.If)
		if !ok {
			continue
		}
		tf, _ := condFacts(iff.Cond)
		if len(tf) != 1 {
			continue
		}
		fact := tf[0]
		var call *ssa.Call
		cond := iff.Cond
		neg := false
		if u, ok := cond.(*ssa.UnOp); ok && u.Op.String() == "!" {
			cond = u.X
			neg = true
		}
		call, _ = cond.(*ssa.Call)
		if call == nil || calleeName(&call.Call) != "math/big.(*Int).IsUint64" {
			_ = fact
			continue
		}
		fail := 1 // false edge of IsUint64()
		if neg {
			fail = 0
		}
		guards = append(guards, guard{b, fail, call.Call.Args[0]})
	}
	if len(guards) == 0 {
		// equivalent form: q.Sign() < 0 -> error together with q.BitLen() > 64 (or q.Cmp(max) > 0) -> error on the same quantity
		var signG, sizeG *guard
		for _, ef := range edgeFacts(f) {
			if strings.HasPrefix(ef.Fact, "call:math/big.(*Int).Sign(") && strings.HasSuffix(ef.Fact, ") < 0") {
				signG = &guard{ef.From, ef.Succ, callArg0(ef.From)}
			}
			if strings.HasPrefix(ef.Fact, "call:math/big.(*Int).BitLen(") && strings.HasSuffix(ef.Fact, ") > 64") ||
				strings.HasPrefix(ef.Fact, "call:math/big.(*Int).Cmp(") && strings.HasSuffix(ef.Fact, ") > 0") {
				sizeG = &guard{ef.From, ef.Succ, callArg0(ef.From)}
			}
		}
		if signG == nil || sizeG == nil || signG.q == nil || sizeG.q == nil || desc(signG.q) != desc(sizeG.q) {
			return "no-guard"
		}
		// both failing edges must not reach success; then continue the analysis with the sign guard as representative
		for _, g := range []*guard{signG, sizeG} {
			after := reachFromAvoiding([]*ssa.BasicBlock{g.b}, func(from *ssa.BasicBlock, i int) bool { return from == g.b && i != g.failIdx })
			for _, r := range succ {
				if after[r.Block()] {
					return "the out-of-range edge can still end in success"
				}
			}
		}
		guards = append(guards, *signG)
	}
	for _, g := range guards {
		qd := desc(g.q)
		if !(strings.Contains(qd, ".Asset(") || strings.Contains(qd, "lookup(") || strings.Contains(qd, "next(")) {
			continue
		}
		// failing edge cannot reach success
		after := reachFromAvoiding([]*ssa.BasicBlock{g.b}, func(from *ssa.BasicBlock, i int) bool { return from == g.b && i != g.failIdx })
		bad := false
		for _, r := range succ {
			if after[r.Block()] {
				bad = true
			}
		}
		if bad {
			return "the out-of-range edge can still end in success"
		}
		if !inLoop(g.b) {
			return "the range check is not inside the iteration over the assets"
		}
		// same object: the multi-asset the quantity is taken from is the one stored as the result
		root := assetsRoot(g.q)
		if root == nil {
			return "cannot identify the multi-asset object the checked quantity comes from"
		}
		stored := false
		var storeInstr []ssa.Instruction
		for _, b := range f.Blocks {
			for _, in := range b.Instrs {
				st, ok := in.(*ssa.Store)
				if !ok || rootValue(st.Addr, 0) != f.Params[0] {
					continue
				}
				if rootValue(st.Val, 0) == root || strings.Contains(desc(st.Val), desc(root)) {
					stored = true
					storeInstr = append(storeInstr, st)
				}
			}
		}
		if root == f.Params[0] {
			stored = true // checks the receiver's own assets in place
		}
		if !stored {
			return "the checked multi-asset is not the object stored as the decode result"
		}
		// bypass: a store of the assets reachable without entering the loop, other than through assets == nil
		nilEdge := cutByFacts(f, func(fact string) bool { return strings.HasSuffix(fact, ".Assets == nil") || strings.HasSuffix(fact, ".data == nil") })
		loopHead := loopHeadOf(g.b)
		for _, st := range storeInstr {
			reach, _ := reachAvoiding(f, func(from *ssa.BasicBlock, i int) bool {
				return nilEdge(from, i) || from.Succs[i] == loopHead
			})
			if loopHead != nil && reach[st.Block()] {
				// reachable without passing the loop head nor the nil edge -> only acceptable if that path carries no assets (scalar branch writes Amount only)
				if strings.Contains(desc(st.(*ssa.Store).Val), desc(root)) {
					return "a path stores the decoded assets without running the range check"
				}
			}
		}
		return ""
	}
	return "no-guard"
}

// assetsRoot: the object whose Assets/… the quantity was read from (alloc or parameter).
func assetsRoot(q ssa.Value) ssa.Value {
	var find func(v ssa.Value, d int) ssa.Value
	find = func(v ssa.Value, d int) ssa.Value {
		if v == nil || d > 10 {
			return nil
		}
		switch x := v.(type) {
		case *ssa.Call:
			if len(x.Call.Args) > 0 {
				return find(x.Call.Args[0], d+1)
			}
		case *ssa.Alloc:
			return x
		case *ssa.Parameter:
			return x
		case *ssa.Extract:
			return find(x.Tuple, d+1)
		case *ssa.Lookup:
			return find(x.X, d+1)
		case *ssa.Next:
			return find(x.Iter, d+1)
		case *ssa.Range:
			return find(x.X, d+1)
		default:
			r := rootValue(v, 0)
			if r != v {
				return find(r, d+1)
			}
		}
		return nil
	}
	return find(q, 0)
}

// loopHeadOf: the outermost loop header dominating b (a block with a back edge from a block it dominates).
func loopHeadOf(b *ssa.BasicBlock) *ssa.BasicBlock {
	var head *ssa.BasicBlock
	for h := b; h != nil; h = h.Idom() {
		for _, p := range h.Preds {
			if h.Dominates(p) && h != p || p == h {
				if reachesBlock(b, p) || b == p || h == b {
					head = h
				}
			}
		}
	}
	return head
}

func reachesBlock(a, b *ssa.BasicBlock) bool {
	seen := map[*ssa.BasicBlock]bool{}
	st := []*ssa.BasicBlock{a}
	for len(st) > 0 {
		x := st[len(st)-1]
		st = st[:len(st)-1]
		if x == b {
			return true
		}
		if seen[x] {
			continue
		}
		seen[x] = true
		st = append(st, x.Succs...)
	}
	return false
}

var _ = fmt.Sprint

func hasInterfaceField(n *types.Named) bool {
	st, ok := n.Underlying().(*types.Struct)
	if !ok {
		return false
	}
	for i := 0; i < st.NumFields(); i++ {
		if _, ok := st.Field(i).Type().Underlying().(*types.Interface); ok {
			return true
		}
	}
	return false
}

// callArg0: the receiver of the big.Int method call that the block's If condition tests.
func callArg0(b *ssa.BasicBlock) ssa.Value {
	iff, ok := b.Instrs[len(b.Instrs)-1].(*ssa.If)
	if !ok {
		return nil
	}
	var find func(v ssa.Value, d int) ssa.Value
	find = func(v ssa.Value, d int) ssa.Value {
		if d > 4 || v == nil {
			return nil
		}
		switch x := v.(type) {
		case *ssa.Call:
			if strings.HasPrefix(calleeName(&x.Call), "math/big.(*Int).") && len(x.Call.Args) > 0 {
				return x.Call.Args[0]
			}
		case *ssa.BinOp:
			if r := find(x.X, d+1); r != nil {
				return r
			}
			return find(x.Y, d+1)
		case *ssa.UnOp:
			return find(x.X, d+1)
		}
		return nil
	}
	return find(iff.Cond, 0)
}
