#!/bin/bash
# Offline setup: build the checker and warm the build cache for /repo's packages.
set -e
cd "$(dirname "$0")"
./vcheck.sh -p warm
