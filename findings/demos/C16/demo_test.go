package localtxmonitor_test

import (
	"testing"
	"time"

	ouroboros "github.com/blinklabs-io/gouroboros"
	"github.com/blinklabs-io/gouroboros/protocol"
	"github.com/blinklabs-io/gouroboros/protocol/localtxmonitor"
	ouroboros_mock "github.com/blinklabs-io/ouroboros-mock"
)

// Structural: after the client sends HasTx the only reply the state machine may
// accept is ReplyHasTx (likewise NextTx -> ReplyNextTx, GetSizes -> ReplyGetSizes).
func TestDemoC16StateMapPairsRequestWithReply(t *testing.T) {
	want := map[uint]uint{
		localtxmonitor.MessageTypeHasTx:    localtxmonitor.MessageTypeReplyHasTx,
		localtxmonitor.MessageTypeNextTx:   localtxmonitor.MessageTypeReplyNextTx,
		localtxmonitor.MessageTypeGetSizes: localtxmonitor.MessageTypeReplyGetSizes,
	}
	checked := 0
	for _, entry := range localtxmonitor.StateMap {
		for _, tr := range entry.Transitions {
			reply, ok := want[uint(tr.MsgType)]
			if !ok {
				continue
			}
			checked++
			busy := localtxmonitor.StateMap[tr.NewState]
			for _, btr := range busy.Transitions {
				if uint(btr.MsgType) != reply {
					t.Errorf(
						"after request type %d the state %q accepts reply type %d (only %d is allowed)",
						tr.MsgType, tr.NewState.String(), btr.MsgType, reply,
					)
				}
			}
		}
	}
	if checked != 3 {
		t.Fatalf("expected 3 request transitions, found %d", checked)
	}
}

// Behavioural: the client asks HasTx, the server answers with ReplyGetSizes.
// That is a protocol violation and must surface as a connection error.
func TestDemoC16WrongReplyKindIsProtocolViolation(t *testing.T) {
	conversation := []ouroboros_mock.ConversationEntry{
		ouroboros_mock.ConversationEntryHandshakeRequestGeneric,
		ouroboros_mock.ConversationEntryHandshakeNtCResponse,
		ouroboros_mock.ConversationEntryInput{
			ProtocolId:  localtxmonitor.ProtocolId,
			MessageType: localtxmonitor.MessageTypeAcquire,
		},
		ouroboros_mock.ConversationEntryOutput{
			ProtocolId: localtxmonitor.ProtocolId,
			IsResponse: true,
			Messages:   []protocol.Message{localtxmonitor.NewMsgAcquired(12345)},
		},
		ouroboros_mock.ConversationEntryInput{
			ProtocolId:  localtxmonitor.ProtocolId,
			MessageType: localtxmonitor.MessageTypeHasTx,
		},
		ouroboros_mock.ConversationEntryOutput{
			ProtocolId: localtxmonitor.ProtocolId,
			IsResponse: true,
			Messages: []protocol.Message{
				// wrong reply kind for a HasTx request
				localtxmonitor.NewMsgReplyGetSizes(100000, 12345, 5),
			},
		},
	}
	mockConn := ouroboros_mock.NewConnection(ouroboros_mock.ProtocolRoleClient, conversation)
	oConn, err := ouroboros.New(
		ouroboros.WithConnection(mockConn),
		ouroboros.WithNetworkMagic(ouroboros_mock.MockNetworkMagic),
	)
	if err != nil {
		t.Fatalf("unexpected error when creating Ouroboros object: %s", err)
	}
	type hasTxResult struct {
		has bool
		err error
	}
	resCh := make(chan hasTxResult, 1)
	go func() {
		has, err := oConn.LocalTxMonitor().Client.HasTx([]byte{0xab, 0xcd})
		resCh <- hasTxResult{has, err}
	}()
	select {
	case connErr, ok := <-oConn.ErrorChan():
		if !ok || connErr == nil {
			t.Fatalf("connection closed without reporting an error")
		}
		t.Logf("connection error reported as required: %v", connErr)
	case r := <-resCh:
		if r.err == nil {
			t.Fatalf("HasTx returned %v without error after a ReplyGetSizes answer", r.has)
		}
		t.Logf("HasTx failed as required: %v", r.err)
	case <-time.After(3 * time.Second):
		go oConn.Close()
		t.Fatalf("ReplyGetSizes in answer to HasTx was accepted by the state machine: no protocol error within 3s and HasTx is still blocked")
	}
	oConn.Close()
}
