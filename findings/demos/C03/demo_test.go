package cbor_test

import (
	"testing"

	"github.com/blinklabs-io/gouroboros/cbor"
)

// A two-element list [5, 0] whose length is encoded non-minimally
// (0x98 0x02 instead of 0x82). The variant id is the first element, 5.
func TestDemoC03DecodeIdFromListNonMinimalHeader(t *testing.T) {
	data := []byte{0x98, 0x02, 0x05, 0x00}
	id, err := cbor.DecodeIdFromList(data)
	if err != nil {
		t.Fatalf("unexpected error: %v", err)
	}
	if id != 5 {
		t.Fatalf("DecodeIdFromList(% x) = %d, want 5 (the first list element)", data, id)
	}
	// cross-check against the minimal encoding of the same list
	id2, err := cbor.DecodeIdFromList([]byte{0x82, 0x05, 0x00})
	if err != nil || id2 != 5 {
		t.Fatalf("minimal encoding: id=%d err=%v", id2, err)
	}
}
