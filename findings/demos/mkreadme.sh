#!/bin/bash
# usage: mkreadme.sh ID pkgdir TestRegex "note"
export GOFLAGS=-mod=mod
ID=$1; PKG=$2; TEST=$3; NOTE=$4
out=/tmp/demos/$ID/README.txt
{
echo "Demo $ID"
echo "$NOTE"
echo
echo "Package directory (relative to repo root) to copy demo_test.go into: $PKG/"
echo "  cp demo_test.go <worktree>/$PKG/zz_demo_${ID}_test.go"
echo "Command (run in the worktree root, with GOFLAGS=-mod=mod exported):"
echo "  go test -count=1 -run '$TEST' ./$PKG/"
echo
for wt in base head; do
  d=/tmp/demo_$wt
  cp /tmp/demos/$ID/demo_test.go $d/$PKG/zz_demo_${ID}_test.go
  if [ $wt = base ]; then echo "Observed on base (77be867) -- FAILS:"; else echo "Observed on head ($(git -C $d rev-parse --short HEAD)) -- PASSES:"; fi
  (cd $d && timeout 600 go test -count=1 -run "$TEST" ./$PKG/ 2>&1 | cut -c1-400 | head -14 | sed 's/^/  | /')
  echo
  rm -f $d/$PKG/zz_demo_${ID}_test.go
done
} > $out
cat $out | grep -E "^  \| (ok|FAIL|--- )" 
