package handshake_test

import (
	"testing"

	ouroboros "github.com/blinklabs-io/gouroboros"
	"github.com/blinklabs-io/gouroboros/protocol"
	"github.com/blinklabs-io/gouroboros/protocol/handshake"
	ouroboros_mock "github.com/blinklabs-io/ouroboros-mock"
)

func demoC19Handshake(t *testing.T, accept protocol.Message) (*ouroboros.Connection, error) {
	t.Helper()
	mockConn := ouroboros_mock.NewConnection(
		ouroboros_mock.ProtocolRoleClient,
		[]ouroboros_mock.ConversationEntry{
			ouroboros_mock.ConversationEntryHandshakeRequestGeneric,
			ouroboros_mock.ConversationEntryOutput{
				ProtocolId: handshake.ProtocolId,
				IsResponse: true,
				Messages:   []protocol.Message{accept},
			},
		},
	)
	// Node-to-client mode (default): only NtC versions (bit 15 set) are proposed,
	// all of them with network magic MockNetworkMagic
	return ouroboros.New(
		ouroboros.WithConnection(mockConn),
		ouroboros.WithNetworkMagic(ouroboros_mock.MockNetworkMagic),
	)
}

// The peer "accepts" node-to-node version 13, which a node-to-client client never proposed.
func TestDemoC19AcceptUnofferedVersion(t *testing.T) {
	const ntnVersion uint16 = 13
	oConn, err := demoC19Handshake(t, handshake.NewMsgAcceptVersion(
		ntnVersion,
		protocol.VersionDataNtN13andUp{
			VersionDataNtN11to12: protocol.VersionDataNtN11to12{
				CborNetworkMagic:                       ouroboros_mock.MockNetworkMagic,
				CborInitiatorAndResponderDiffusionMode: protocol.DiffusionModeInitiatorOnly,
				CborPeerSharing:                        protocol.PeerSharingModeNoPeerSharing,
				CborQuery:                              protocol.QueryModeDisabled,
			},
		},
	))
	if err == nil {
		v, _ := oConn.ProtocolVersion()
		oConn.Close()
		t.Fatalf("handshake completed with version %d, which the client never proposed", v)
	}
	t.Logf("handshake failed as required: %v", err)
}

// The peer accepts a proposed version but answers with a different network magic.
func TestDemoC19AcceptForeignMagic(t *testing.T) {
	const ntcVersion uint16 = 14 + protocol.ProtocolVersionNtCOffset
	const foreignMagic uint32 = ouroboros_mock.MockNetworkMagic + 1
	oConn, err := demoC19Handshake(t, handshake.NewMsgAcceptVersion(
		ntcVersion,
		protocol.VersionDataNtC9to14(foreignMagic),
	))
	if err == nil {
		_, vd := oConn.ProtocolVersion()
		oConn.Close()
		t.Fatalf("handshake completed with network magic %d, client proposed %d",
			vd.NetworkMagic(), ouroboros_mock.MockNetworkMagic)
	}
	t.Logf("handshake failed as required: %v", err)
}
