package peersharing_test

import (
	"fmt"
	"net"
	"sync"
	"testing"
	"time"

	ouroboros "github.com/blinklabs-io/gouroboros"
	"github.com/blinklabs-io/gouroboros/protocol"
	"github.com/blinklabs-io/gouroboros/protocol/handshake"
	"github.com/blinklabs-io/gouroboros/protocol/peersharing"
	ouroboros_mock "github.com/blinklabs-io/ouroboros-mock"
)

var demoC25HandshakeResponsePeerSharing = ouroboros_mock.ConversationEntryOutput{
	ProtocolId: handshake.ProtocolId,
	IsResponse: true,
	Messages: []protocol.Message{
		handshake.NewMsgAcceptVersion(
			ouroboros_mock.MockProtocolVersionNtN,
			protocol.VersionDataNtN13andUp{
				VersionDataNtN11to12: protocol.VersionDataNtN11to12{
					CborNetworkMagic:                       ouroboros_mock.MockNetworkMagic,
					CborInitiatorAndResponderDiffusionMode: protocol.DiffusionModeInitiatorOnly,
					CborPeerSharing:                        protocol.PeerSharingModePeerSharingPublic,
					CborQuery:                              protocol.QueryModeDisabled,
				},
			},
		),
	},
}

// Schedule: the client sends ShareRequest, the peer reads it and then drops the
// connection without answering. GetPeers must return an error once the
// connection has shut down; a caller must not stay blocked forever.
func TestDemoC25GetPeersWakesOnShutdown(t *testing.T) {
	mockConn := ouroboros_mock.NewConnection(
		ouroboros_mock.ProtocolRoleClient,
		[]ouroboros_mock.ConversationEntry{
			ouroboros_mock.ConversationEntryHandshakeRequestGeneric,
			demoC25HandshakeResponsePeerSharing,
			ouroboros_mock.ConversationEntryInput{
				ProtocolId:  peersharing.ProtocolId,
				MessageType: peersharing.MessageTypeShareRequest,
			},
			ouroboros_mock.ConversationEntryClose{},
		},
	)
	oConn, err := ouroboros.New(
		ouroboros.WithConnection(mockConn),
		ouroboros.WithNetworkMagic(ouroboros_mock.MockNetworkMagic),
		ouroboros.WithNodeToNode(true),
		ouroboros.WithPeerSharing(true),
	)
	if err != nil {
		t.Fatalf("unexpected error when creating Ouroboros object: %s", err)
	}
	go func() {
		for range oConn.ErrorChan() {
		}
	}()
	type result struct {
		peers []peersharing.PeerAddress
		err   error
	}
	resCh := make(chan result, 1)
	go func() {
		peers, err := oConn.PeerSharing().Client.GetPeers(3)
		resCh <- result{peers, err}
	}()
	// Wait until the peer-sharing client protocol has fully shut down
	select {
	case <-oConn.PeerSharing().Client.DoneChan():
	case <-time.After(5 * time.Second):
		t.Fatal("fixture problem: peer-sharing client protocol did not shut down after the peer closed the connection")
	}
	select {
	case r := <-resCh:
		if r.err == nil {
			t.Fatalf("GetPeers returned %v without error although no reply was ever sent", r.peers)
		}
		t.Logf("GetPeers returned as required: %v", r.err)
	case <-time.After(3 * time.Second):
		t.Fatal("protocol is Done (connection closed) but GetPeers is still blocked 3s later")
	}
}

// Two full gouroboros endpoints over a net.Pipe. The server answers a request for
// N peers with exactly N peers, so every caller can tell whether the answer it
// got belongs to its own request. Several callers use GetPeers concurrently.
func TestDemoC25ConcurrentGetPeersGetOwnReply(t *testing.T) {
	clientSide, serverSide := net.Pipe()
	shareFunc := func(_ peersharing.CallbackContext, amount int) ([]peersharing.PeerAddress, error) {
		ret := make([]peersharing.PeerAddress, amount)
		for i := range ret {
			ret[i] = peersharing.PeerAddress{IP: net.IPv4(10, 0, 0, byte(i+1)).To4(), Port: 3001}
		}
		return ret, nil
	}
	srvErr := make(chan error, 1)
	var srv *ouroboros.Connection
	go func() {
		var err error
		srv, err = ouroboros.New(
			ouroboros.WithConnection(serverSide),
			ouroboros.WithNetworkMagic(ouroboros_mock.MockNetworkMagic),
			ouroboros.WithNodeToNode(true),
			ouroboros.WithServer(true),
			ouroboros.WithPeerSharing(true),
			ouroboros.WithPeerSharingConfig(
				peersharing.NewConfig(peersharing.WithShareRequestFunc(shareFunc)),
			),
		)
		srvErr <- err
	}()
	cli, err := ouroboros.New(
		ouroboros.WithConnection(clientSide),
		ouroboros.WithNetworkMagic(ouroboros_mock.MockNetworkMagic),
		ouroboros.WithNodeToNode(true),
		ouroboros.WithPeerSharing(true),
	)
	if err != nil {
		t.Fatalf("client: %v", err)
	}
	if err := <-srvErr; err != nil {
		t.Fatalf("server: %v", err)
	}
	defer func() {
		go cli.Close()
		go srv.Close()
	}()
	connErrs := make(chan error, 16)
	go func() {
		for e := range cli.ErrorChan() {
			select {
			case connErrs <- fmt.Errorf("client connection: %w", e):
			default:
			}
		}
	}()
	go func() {
		for e := range srv.ErrorChan() {
			select {
			case connErrs <- fmt.Errorf("server connection: %w", e):
			default:
			}
		}
	}()

	const callers = 100
	const rounds = 300
	var mu sync.Mutex
	var problems []string
	report := func(s string) {
		mu.Lock()
		if len(problems) < 5 {
			problems = append(problems, s)
		}
		mu.Unlock()
	}
	var wg sync.WaitGroup
	for c := 1; c <= callers; c++ {
		wg.Add(1)
		go func(amount int) {
			defer wg.Done()
			for r := 0; r < rounds; r++ {
				peers, err := cli.PeerSharing().Client.GetPeers(uint8(amount))
				if err != nil {
					report(fmt.Sprintf("caller asking for %d peers: error %v", amount, err))
					return
				}
				if len(peers) != amount {
					report(fmt.Sprintf(
						"caller asking for %d peers received the %d-peer answer to another caller's request",
						amount, len(peers)))
					return
				}
			}
		}(c)
	}
	done := make(chan struct{})
	go func() { wg.Wait(); close(done) }()
	select {
	case <-done:
	case <-time.After(60 * time.Second):
		report("callers still blocked in GetPeers after 60s")
	}
	select {
	case e := <-connErrs:
		report(e.Error())
	default:
	}
	mu.Lock()
	defer mu.Unlock()
	for _, p := range problems {
		t.Error(p)
	}
}
