package allegra_test

import (
	"testing"

	mockledger "github.com/blinklabs-io/ouroboros-mock/ledger"

	"github.com/blinklabs-io/gouroboros/ledger/allegra"
)

// A transaction with invalid_hereafter (TTL) = 1000 is valid only in slots < 1000.
func TestDemoC26TTLUpperBound(t *testing.T) {
	tx := &allegra.AllegraTransaction{
		Body: allegra.AllegraTransactionBody{
			TxValidityIntervalStart: 500,
			Ttl:                     1000,
		},
	}
	ls := mockledger.NewLedgerStateBuilder().Build()
	pp := &allegra.AllegraProtocolParameters{}
	if err := allegra.UtxoValidateOutsideValidityIntervalUtxo(tx, 999, ls, pp); err != nil {
		t.Errorf("slot 999 is inside [500,1000) but was rejected: %v", err)
	}
	for _, slot := range []uint64{1000, 1001, 5000} {
		if err := allegra.UtxoValidateOutsideValidityIntervalUtxo(tx, slot, ls, pp); err == nil {
			t.Errorf("slot %d is at/after TTL 1000 but the transaction was accepted", slot)
		}
	}
}
