// Demonstration for C45 (reward amounts wrap around for pots above 2^53 lovelace).
// Copy into ledger/common/ and run:
//   go test -vet=off -count=1 -run TestC45RewardsDoNotWrap ./ledger/common/
// FAILS on the unrepaired tree: with a reward pot of cost + 2^53 + 3 lovelace and a pool margin of 1,
// float64(total-cost) rounds UP by one, the operator reward exceeds the pool total and the unsigned
// subtraction totalPoolRewards - operatorRewards wraps, so delegators are assigned astronomically large
// rewards and operator + delegators no longer equals the pool total.
package common_test

import (
	"math/big"
	"testing"

	"github.com/blinklabs-io/gouroboros/ledger/common"
)

func TestC45RewardsDoNotWrap(t *testing.T) {
	var pool common.PoolKeyHash
	pool[0] = 1
	var deleg common.AddrKeyHash
	deleg[0] = 2
	const cost = uint64(340_000_000)
	pot := cost + (uint64(1) << 53) + 3
	params := &common.PoolRegistrationCertificate{
		Cost:   cost,
		Margin: common.GenesisRat{Rat: big.NewRat(1, 1)},
	}
	snapshot := common.RewardSnapshot{
		TotalActiveStake:   1_000_000,
		PoolStake:          map[common.PoolKeyHash]uint64{pool: 1_000_000},
		DelegatorStake:     map[common.PoolKeyHash]map[common.AddrKeyHash]uint64{pool: {deleg: 1_000_000}},
		PoolParams:         map[common.PoolKeyHash]*common.PoolRegistrationCertificate{pool: params},
		StakeRegistrations: map[common.AddrKeyHash]bool{deleg: true},
	}
	res, err := common.CalculateRewards(common.AdaPots{Rewards: pot}, snapshot, common.RewardParameters{})
	if err != nil {
		t.Fatalf("unexpected error: %v", err)
	}
	pr := res.PoolRewards[pool]
	sum := new(big.Int).SetUint64(pr.OperatorRewards)
	for _, r := range pr.DelegatorRewards {
		if r > pot {
			t.Errorf("delegator reward %d exceeds the pot %d (wrap-around)", r, pot)
		}
		sum.Add(sum, new(big.Int).SetUint64(r))
	}
	if pr.OperatorRewards > pot {
		t.Errorf("operator reward %d exceeds the pot %d (wrap-around)", pr.OperatorRewards, pot)
	}
	if sum.Cmp(new(big.Int).SetUint64(pr.TotalRewards)) != 0 {
		t.Errorf("operator + delegators = %s, pool total = %d", sum, pr.TotalRewards)
	}
	if pr.TotalRewards != pot {
		t.Errorf("pool totals %d do not add up to the pot %d", pr.TotalRewards, pot)
	}
}
