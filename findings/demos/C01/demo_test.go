// Copy into ledger/babbage; run: go test -count=1 -run TestDemoC01OutputRemarshal ./ledger/babbage/
package babbage

import (
	"bytes"
	"encoding/hex"
	"testing"

	"github.com/blinklabs-io/gouroboros/cbor"
)

// A post-Alonzo (map form) output whose map keys and amount use non-minimal integer encodings.
// The library decodes it, reports the exact bytes through Cbor(), but MarshalCBOR of the
// unmodified object produced a canonical re-encoding instead of those bytes.
func TestDemoC01OutputRemarshal(t *testing.T) {
	addr, _ := hex.DecodeString("61" + "00112233445566778899aabbccddeeff00112233445566778899aabb")
	var buf bytes.Buffer
	buf.WriteByte(0xa2)             // map(2)
	buf.Write([]byte{0x18, 0x00})    // key 0, non-minimal
	buf.WriteByte(0x58)              // bytes, 1-byte length
	buf.WriteByte(byte(len(addr)))
	buf.Write(addr)
	buf.Write([]byte{0x18, 0x01})    // key 1, non-minimal
	buf.Write([]byte{0x19, 0x00, 0x05}) // amount 5, non-minimal
	in := buf.Bytes()
	var out BabbageTransactionOutput
	if _, err := cbor.Decode(in, &out); err != nil {
		t.Fatalf("decode: %v", err)
	}
	if !bytes.Equal(out.Cbor(), in) {
		t.Fatalf("stored bytes differ from input")
	}
	re, err := out.MarshalCBOR()
	if err != nil {
		t.Fatalf("marshal: %v", err)
	}
	if !bytes.Equal(re, in) {
		t.Fatalf("re-serialising the unmodified decoded output does not reproduce its bytes:\n in=%x\nout=%x", in, re)
	}
}
