// C15 demo 5 - tx-submission server: the cleanup goroutine started by
// Server.Start() waits on `<-doneChan` (protocol/txsubmission/server.go:104),
// but Protocol.Start() returns early - without starting the engine loops or
// the goroutine that closes doneChan - when the muxer is already shut down
// (RegisterProtocol returns nil channels). doneChan then never closes and the
// cleanup goroutine leaks forever.
//
// Package directory : protocol/txsubmission   (external test package txsubmission_test)
// Install           : cp /tmp/c15_demos/5/demo_test.go <repo>/protocol/txsubmission/c15_demo_test.go
// Run               : cd <repo> && GOFLAGS=-mod=mod go test ./protocol/txsubmission/ -run 'TestC15Demo' -count=1 -v
//
// Site demonstrated:
//   protocol/txsubmission/server.go:104  (*Server).Start.func1   <-doneChan
//
// Two deterministic tests, both FAIL on the current code after ~3s (no hang):
//   TestC15DemoTxSubmissionServerStartOnClosedMuxerLeaksGoroutine
//       the connection is already gone when Server.Start() runs (what
//       Connection.setupConnection does when the peer drops right after the handshake)
//   TestC15DemoTxSubmissionServerRestartAfterDoneLeaksGoroutine
//       the peer sends Done (permitted in TxIdsBlocking) and the connection goes
//       away before handleDone's restart (`s.Stop(); s.initProtocol(); s.Start()`)
//       re-registers with the muxer. The DoneFunc callback, which handleDone
//       invokes just before the restart, is used as the hook that makes the
//       "connection closed in between" timing deterministic.
// The leaked goroutine is shown both via runtime.Stack and via goleak.Find.

package txsubmission_test

import (
	"bytes"
	"encoding/binary"
	"io"
	"net"
	"runtime"
	"strings"
	"testing"
	"time"

	"github.com/blinklabs-io/gouroboros/cbor"
	"github.com/blinklabs-io/gouroboros/connection"
	"github.com/blinklabs-io/gouroboros/muxer"
	"github.com/blinklabs-io/gouroboros/protocol"
	"github.com/blinklabs-io/gouroboros/protocol/txsubmission"
	"go.uber.org/goleak"
)

const c15CleanupFunc = "txsubmission.(*Server).Start.func1"

// c15CleanupGoroutines returns the stacks of all currently running
// Server.Start cleanup goroutines, keyed by their "goroutine N" header.
func c15CleanupGoroutines() map[string]string {
	buf := make([]byte, 1<<20)
	buf = buf[:runtime.Stack(buf, true)]
	ret := map[string]string{}
	for _, g := range strings.Split(string(buf), "\n\n") {
		if strings.Contains(g, c15CleanupFunc) {
			header, _, _ := strings.Cut(g, " [")
			ret[header] = g
		}
	}
	return ret
}

// c15FindCleanupGoroutine polls for up to `wait` and returns the stack of a
// still-running Server.Start cleanup goroutine that was not already present in
// `baseline` (i.e. leaked by an earlier test); "" when there is none.
func c15FindCleanupGoroutine(
	baseline map[string]string,
	wait time.Duration,
) string {
	deadline := time.Now().Add(wait)
	for {
		found := ""
		for header, g := range c15CleanupGoroutines() {
			if _, ok := baseline[header]; !ok {
				found = g
				break
			}
		}
		if found == "" || time.Now().After(deadline) {
			return found
		}
		time.Sleep(50 * time.Millisecond)
	}
}

func c15ProtoOptions(m *muxer.Muxer, errorChan chan error) protocol.ProtocolOptions {
	return protocol.ProtocolOptions{
		ConnectionId: connection.ConnectionId{
			LocalAddr:  &net.TCPAddr{IP: net.IPv4(127, 0, 0, 1), Port: 1},
			RemoteAddr: &net.TCPAddr{IP: net.IPv4(127, 0, 0, 1), Port: 2},
		},
		Muxer:     m,
		ErrorChan: errorChan,
		Mode:      protocol.ProtocolModeNodeToNode,
		Role:      protocol.ProtocolRoleServer,
	}
}

func c15WaitMuxerDown(t *testing.T, m *muxer.Muxer) {
	t.Helper()
	// muxer closes its ErrorChan once all of its goroutines have finished
	timeout := time.After(3 * time.Second)
	for {
		select {
		case _, ok := <-m.ErrorChan():
			if !ok {
				return
			}
		case <-timeout:
			t.Fatalf("muxer did not shut down")
		}
	}
}

func c15ReportLeak(
	t *testing.T,
	baseline map[string]string,
	leakOpt goleak.Option,
	what string,
) {
	t.Helper()
	stack := c15FindCleanupGoroutine(baseline, 3*time.Second)
	if stack == "" {
		t.Logf("no leaked Server.Start cleanup goroutine")
		return
	}
	t.Errorf(
		"LEAK: %s: the Server.Start cleanup goroutine is still parked on <-doneChan (server.go:104) 3s after everything was stopped; doneChan of a Protocol whose Start() bailed out is never closed\n%s",
		what,
		stack,
	)
	if err := goleak.Find(leakOpt); err != nil {
		t.Errorf("goleak agrees:\n%s", err)
	}
}

// Scenario 1: the muxer is already shut down when Server.Start() is called.
func TestC15DemoTxSubmissionServerStartOnClosedMuxerLeaksGoroutine(t *testing.T) {
	leakOpt := goleak.IgnoreCurrent()
	baseline := c15CleanupGoroutines()
	connA, connB := net.Pipe()
	m := muxer.New(connA)
	// The peer drops the connection (equivalently: muxer hit EOF / Connection.Close()).
	_ = connB.Close()
	m.Stop()
	c15WaitMuxerDown(t, m)
	_ = connA.Close()

	errorChan := make(chan error, 10)
	cfg := txsubmission.NewConfig()
	server := txsubmission.NewServer(c15ProtoOptions(m, errorChan), &cfg)
	server.Start()

	select {
	case err := <-errorChan:
		t.Logf("Protocol.Start() bailed out and reported: %v", err)
	case <-time.After(time.Second):
		t.Logf("no protocol error reported")
	}
	// Stop whatever can be stopped.
	server.ProtocolInstance().Stop()

	select {
	case <-server.ProtocolInstance().DoneChan():
		t.Logf("protocol DoneChan closed")
	case <-time.After(time.Second):
		t.Logf("protocol DoneChan is still open 1s after Protocol.Stop() on a closed connection")
	}
	c15ReportLeak(t, baseline, leakOpt, "Server.Start() on an already closed connection")
}

func c15WriteSegment(t *testing.T, conn net.Conn, msg protocol.Message) {
	t.Helper()
	data, err := cbor.Encode(msg)
	if err != nil {
		t.Fatalf("peer: encode: %s", err)
	}
	// isResponse=false: the peer is the tx-submission client (initiator)
	segment := muxer.NewSegment(txsubmission.ProtocolId, data, false)
	buf := &bytes.Buffer{}
	if err := binary.Write(buf, binary.BigEndian, segment.SegmentHeader); err != nil {
		t.Fatalf("peer: %s", err)
	}
	buf.Write(segment.Payload)
	_ = conn.SetWriteDeadline(time.Now().Add(3 * time.Second))
	if _, err := conn.Write(buf.Bytes()); err != nil {
		t.Fatalf("peer: write: %s", err)
	}
}

func c15ReadSegment(t *testing.T, conn net.Conn) {
	t.Helper()
	_ = conn.SetReadDeadline(time.Now().Add(3 * time.Second))
	header := muxer.SegmentHeader{}
	if err := binary.Read(conn, binary.BigEndian, &header); err != nil {
		t.Fatalf("peer: read header: %s", err)
	}
	if _, err := io.ReadFull(conn, make([]byte, header.PayloadLength)); err != nil {
		t.Fatalf("peer: read payload: %s", err)
	}
}

// Scenario 2: peer sends Init, we send a blocking RequestTxIds, peer answers
// Done and the connection goes away before handleDone restarts the protocol.
func TestC15DemoTxSubmissionServerRestartAfterDoneLeaksGoroutine(t *testing.T) {
	leakOpt := goleak.IgnoreCurrent()
	baseline := c15CleanupGoroutines()
	connA, connB := net.Pipe()
	defer connA.Close()
	defer connB.Close()
	m := muxer.New(connA)

	errorChan := make(chan error, 10)
	initCalled := make(chan struct{})
	doneCalled := make(chan struct{})
	cfg := txsubmission.NewConfig(
		txsubmission.WithInitFunc(func(txsubmission.CallbackContext) error {
			close(initCalled)
			return nil
		}),
		txsubmission.WithDoneFunc(func(txsubmission.CallbackContext) error {
			// handleDone calls this right before `s.Stop(); s.initProtocol(); s.Start()`.
			// The peer has sent Done and now drops the connection.
			_ = connB.Close()
			m.Stop()
			close(doneCalled)
			return nil
		}),
	)
	server := txsubmission.NewServer(c15ProtoOptions(m, errorChan), &cfg)
	firstProto := server.ProtocolInstance()
	server.Start()
	m.Start()

	// Peer: Init (Init -> Idle)
	c15WriteSegment(t, connB, txsubmission.NewMsgInit())
	select {
	case <-initCalled:
	case <-time.After(3 * time.Second):
		t.Fatalf("InitFunc was not called")
	}
	// Us: blocking RequestTxIds (Idle -> TxIdsBlocking)
	reqDone := make(chan error, 1)
	go func() {
		_, err := server.RequestTxIds(true, 10)
		reqDone <- err
	}()
	c15ReadSegment(t, connB)
	// Peer: Done (TxIdsBlocking -> Done), permitted by the state machine
	c15WriteSegment(t, connB, txsubmission.NewMsgDone())

	select {
	case err := <-reqDone:
		t.Logf("RequestTxIds returned: %v", err)
	case <-time.After(3 * time.Second):
		t.Fatalf("RequestTxIds did not return")
	}
	select {
	case <-doneCalled:
	case <-time.After(3 * time.Second):
		t.Fatalf("DoneFunc was not called")
	}
	// The first instance shuts down properly (so its cleanup goroutine exits)
	select {
	case <-firstProto.DoneChan():
	case <-time.After(3 * time.Second):
		t.Fatalf("first protocol instance did not finish")
	}
	// Wait until handleDone has installed (and tried to start) the new instance
	deadline := time.Now().Add(3 * time.Second)
	for server.ProtocolInstance() == firstProto && time.Now().Before(deadline) {
		time.Sleep(10 * time.Millisecond)
	}
	if server.ProtocolInstance() == firstProto {
		t.Fatalf("handleDone did not restart the protocol")
	}
	time.Sleep(200 * time.Millisecond)
	// Stop whatever can be stopped.
	server.ProtocolInstance().Stop()
	c15WaitMuxerDown(t, m)

	c15ReportLeak(t, baseline, leakOpt, "restart in handleDone after the peer sent Done and dropped the connection")
}
