// C15 demo 4 - leios-notify client: notificationLoop exits on a (non-stop)
// NotificationFunc error without draining; the handler for the next pipelined,
// state-machine-permitted notification then blocks forever in
// select{<-c.DoneChan(); c.notificationChan <- msg}.
//
// Package directory : protocol/leiosnotify   (internal test package leiosnotify)
// Install           : cp /tmp/c15_demos/4/demo_test.go <repo>/protocol/leiosnotify/c15_demo_test.go
// Run               : cd <repo> && GOFLAGS=-mod=mod go test ./protocol/leiosnotify/ -run 'TestC15Demo' -count=1 -v
//
// Sites demonstrated (one sub-test each):
//   protocol/leiosnotify/client.go:220  handleBlockAnnouncement
//   protocol/leiosnotify/client.go:227  handleBlockOffer
//   protocol/leiosnotify/client.go:234  handleBlockTxsOffer
//   protocol/leiosnotify/client.go:241  handleVotesOffer
//
// All four sub-tests FAIL on the current code after a few seconds (no hang).
// TestC15ControlLeiosNotifyStopDrains is a passing control (same traffic, but
// NotificationFunc returns ErrStopNotificationProcess, which drains).

package leiosnotify

import (
	"bytes"
	"encoding/binary"
	"errors"
	"io"
	"net"
	"runtime"
	"strings"
	"sync/atomic"
	"testing"
	"time"

	"github.com/blinklabs-io/gouroboros/cbor"
	"github.com/blinklabs-io/gouroboros/connection"
	"github.com/blinklabs-io/gouroboros/muxer"
	"github.com/blinklabs-io/gouroboros/protocol"
	pcommon "github.com/blinklabs-io/gouroboros/protocol/common"
)

func c15ReadSegment(t *testing.T, conn net.Conn) *muxer.Segment {
	t.Helper()
	_ = conn.SetReadDeadline(time.Now().Add(3 * time.Second))
	header := muxer.SegmentHeader{}
	if err := binary.Read(conn, binary.BigEndian, &header); err != nil {
		t.Fatalf("peer: failed to read segment header: %s", err)
	}
	payload := make([]byte, header.PayloadLength)
	if _, err := io.ReadFull(conn, payload); err != nil {
		t.Fatalf("peer: failed to read segment payload: %s", err)
	}
	return &muxer.Segment{SegmentHeader: header, Payload: payload}
}

func c15WriteSegment(t *testing.T, conn net.Conn, payload []byte) {
	t.Helper()
	segment := muxer.NewSegment(ProtocolId, payload, true)
	buf := &bytes.Buffer{}
	if err := binary.Write(buf, binary.BigEndian, segment.SegmentHeader); err != nil {
		t.Fatalf("peer: %s", err)
	}
	buf.Write(segment.Payload)
	if _, err := conn.Write(buf.Bytes()); err != nil {
		t.Fatalf("peer: failed to write segment: %s", err)
	}
}

// c15CountRequestNext counts the RequestNext messages in a segment payload
func c15CountRequestNext(t *testing.T, payload []byte) int {
	t.Helper()
	count := 0
	for len(payload) > 0 {
		tmp := []cbor.RawMessage{}
		n, err := cbor.Decode(payload, &tmp)
		if err != nil || n == 0 {
			t.Fatalf("peer: failed to decode client message: %v", err)
		}
		var msgType uint
		if _, err := cbor.Decode(tmp[0], &msgType); err != nil {
			t.Fatalf("peer: %s", err)
		}
		if msgType != MessageTypeNotificationRequestNext {
			t.Fatalf("peer: unexpected client message type %d", msgType)
		}
		count++
		payload = payload[n:]
	}
	return count
}

// c15RunNotify runs the scenario and returns true when the protocol finished
// (DoneChan closed) within 3s of error + Protocol.Stop() + connection close.
func c15RunNotify(
	t *testing.T,
	notification protocol.Message,
	callbackErr error,
	expectProtoError bool,
	handlerName string,
) (bool, string) {
	connA, connB := net.Pipe()
	defer connA.Close()
	defer connB.Close()

	m := muxer.New(connA)
	go func() {
		for range m.ErrorChan() {
		}
	}()

	const pipelineLimit = 2
	var calls atomic.Int32
	inSecondCallback := make(chan struct{})
	releaseCallback := make(chan struct{})
	cfg := NewConfig(
		WithPipelineLimit(pipelineLimit),
		WithNotificationFunc(func(_ CallbackContext, _ protocol.Message) error {
			switch calls.Add(1) {
			case 1:
				// reply to the initial RequestNext: accept, so that the loop
				// pipelines `pipelineLimit` further requests
				return nil
			case 2:
				close(inSecondCallback)
				<-releaseCallback
				// e.g. the application rejects the peer-supplied content
				return callbackErr
			}
			return nil
		}),
	)
	errorChan := make(chan error, 10)
	client := NewClient(
		protocol.ProtocolOptions{
			ConnectionId: connection.ConnectionId{
				LocalAddr:  &net.TCPAddr{IP: net.IPv4(127, 0, 0, 1), Port: 1},
				RemoteAddr: &net.TCPAddr{IP: net.IPv4(127, 0, 0, 1), Port: 2},
			},
			Muxer:     m,
			ErrorChan: errorChan,
			Mode:      protocol.ProtocolModeNodeToNode,
		},
		&cfg,
	)
	client.Start()
	m.Start()

	msgData, err := cbor.Encode(notification)
	if err != nil {
		t.Fatalf("failed to encode notification: %s", err)
	}

	if err := client.Sync(); err != nil {
		t.Fatalf("unexpected Sync error: %s", err)
	}
	// Peer: read the initial RequestNext and answer it (Busy -> Idle)
	if n := c15CountRequestNext(t, c15ReadSegment(t, connB).Payload); n != 1 {
		t.Fatalf("peer: expected 1 initial RequestNext, got %d", n)
	}
	c15WriteSegment(t, connB, msgData)
	// Peer: read the pipelined RequestNext messages
	got := 0
	for got < pipelineLimit {
		got += c15CountRequestNext(t, c15ReadSegment(t, connB).Payload)
	}
	// Peer: answer both of them back to back. Each reply is permitted: the
	// queued Idle->Busy transition for request 2 is applied by sendLoop as soon
	// as reply 1 has moved the state back to Idle.
	c15WriteSegment(t, connB, append(append([]byte{}, msgData...), msgData...))

	select {
	case <-inSecondCallback:
	case <-time.After(3 * time.Second):
		t.Fatalf("NotificationFunc was not called for the first pipelined reply")
	}
	// notificationLoop is inside NotificationFunc(reply 1); give recvLoop time
	// to enter the handler for reply 2 and park on `c.notificationChan <- msg`.
	time.Sleep(300 * time.Millisecond)
	close(releaseCallback)

	if expectProtoError {
		select {
		case err := <-errorChan:
			t.Logf("protocol reported %q (SendError also called Protocol.Stop())", err)
		case <-time.After(3 * time.Second):
			t.Fatalf("expected the NotificationFunc error on the protocol error channel")
		}
	}

	// End everything: peer gone, muxer stopped, protocol stopped.
	_ = connB.Close()
	m.Stop()
	client.Protocol.Stop()

	select {
	case <-client.DoneChan():
		return true, ""
	case <-time.After(3 * time.Second):
	}
	// Show where recvLoop is stuck
	buf := make([]byte, 1<<20)
	buf = buf[:runtime.Stack(buf, true)]
	stuck := ""
	for _, g := range strings.Split(string(buf), "\n\n") {
		// (goroutines leaked by earlier sub-tests are still around, so match
		// the handler of this sub-test)
		if strings.Contains(g, "leiosnotify.(*Client)."+handlerName+"(") {
			lines := strings.Split(g, "\n")
			if len(lines) > 7 {
				lines = lines[:7]
			}
			stuck = strings.Join(lines, "\n")
			break
		}
	}
	return false, stuck
}

func TestC15DemoLeiosNotifyHandlerWedgesAfterCallbackError(t *testing.T) {
	point := pcommon.NewPoint(12345, []byte{0x01, 0x02, 0x03, 0x04})
	tests := []struct {
		name    string
		handler string
		site    string
		msg     protocol.Message
	}{
		{
			name:    "BlockAnnouncement",
			handler: "handleBlockAnnouncement",
			site:    "handleBlockAnnouncement (client.go:220)",
			msg:     NewMsgBlockAnnouncement([]byte{0x82, 0x01, 0x02}),
		},
		{
			name:    "BlockOffer",
			handler: "handleBlockOffer",
			site:    "handleBlockOffer (client.go:227)",
			msg:     NewMsgBlockOffer(point, 12345),
		},
		{
			name:    "BlockTxsOffer",
			handler: "handleBlockTxsOffer",
			site:    "handleBlockTxsOffer (client.go:234)",
			msg:     NewMsgBlockTxsOffer(point),
		},
		{
			name:    "VotesOffer",
			handler: "handleVotesOffer",
			site:    "handleVotesOffer (client.go:241)",
			msg: NewMsgVotesOffer(
				[]MsgVotesOfferVote{{SlotNo: 1, VoterId: 2}},
			),
		},
	}
	for _, test := range tests {
		t.Run(test.name, func(t *testing.T) {
			finished, stuck := c15RunNotify(
				t,
				test.msg,
				errors.New("notification rejected by application"),
				true,
				test.handler,
			)
			if !finished {
				t.Errorf(
					"LEAK: leios-notify client DoneChan still open 3s after NotificationFunc error + Protocol.Stop() + connection close: recvLoop is wedged in %s, the DoneChan arm of its select can never fire\n%s",
					test.site,
					stuck,
				)
			}
		})
	}
}

// Control: identical traffic, but the callback asks for a graceful stop, which
// drains the outstanding pipelined replies. Passes on the current code.
func TestC15ControlLeiosNotifyStopDrains(t *testing.T) {
	finished, stuck := c15RunNotify(
		t,
		NewMsgBlockAnnouncement([]byte{0x82, 0x01, 0x02}),
		ErrStopNotificationProcess,
		false,
		"handleBlockAnnouncement",
	)
	if !finished {
		t.Errorf("control unexpectedly did not finish\n%s", stuck)
	}
}
