// C15 demo 2 - DMQ local-message-notification server: a blocking RequestMessages
// parks recvLoop in WaitForMessage(0); neither connection close nor
// Protocol.Stop() can ever release it.
//
// Package directory : protocol/localmessagenotification   (internal test package localmessagenotification)
// Install           : cp /tmp/c15_demos/2/demo_test.go <repo>/protocol/localmessagenotification/c15_demo_test.go
// Run               : cd <repo> && GOFLAGS=-mod=mod go test ./protocol/localmessagenotification/ -run 'TestC15Demo' -count=1 -v
//
// Site demonstrated:
//   protocol/localmessagenotification/server.go:153  WaitForMessage  select{<-newMessageSignal; <-s.done}
//   (s.done / newMessageSignal are closed only by handleClientDone, which needs recvLoop)
//
// The test FAILS on the current code after a few seconds (it does not hang).

package localmessagenotification

import (
	"bytes"
	"encoding/binary"
	"net"
	"testing"
	"time"

	"github.com/blinklabs-io/gouroboros/cbor"
	"github.com/blinklabs-io/gouroboros/connection"
	"github.com/blinklabs-io/gouroboros/muxer"
	"github.com/blinklabs-io/gouroboros/protocol"
)

func TestC15DemoBlockingRequestWedgesRecvLoopForever(t *testing.T) {
	connA, connB := net.Pipe()
	defer connA.Close()
	defer connB.Close()

	m := muxer.New(connA)
	go func() {
		for range m.ErrorChan() {
		}
	}()
	errorChan := make(chan error, 10)
	server := NewServer(
		protocol.ProtocolOptions{
			ConnectionId: connection.ConnectionId{
				LocalAddr:  &net.TCPAddr{IP: net.IPv4(127, 0, 0, 1), Port: 1},
				RemoteAddr: &net.TCPAddr{IP: net.IPv4(127, 0, 0, 1), Port: 2},
			},
			Muxer:     m,
			ErrorChan: errorChan,
			Mode:      protocol.ProtocolModeNodeToClient,
			Role:      protocol.ProtocolRoleServer,
		},
		nil,
	)
	server.Start()
	m.Start()
	m.SetDiffusionMode(muxer.DiffusionModeResponder)

	// The peer (DMQ client) sends one blocking RequestMessages: permitted in
	// state idle (idle -> busyBlocking). The server's queue is empty.
	msgData, err := cbor.Encode(NewMsgRequestMessages(true))
	if err != nil {
		t.Fatalf("unexpected error: %s", err)
	}
	segment := muxer.NewSegment(ProtocolID, msgData, false)
	buf := &bytes.Buffer{}
	if err := binary.Write(buf, binary.BigEndian, segment.SegmentHeader); err != nil {
		t.Fatalf("unexpected error: %s", err)
	}
	buf.Write(segment.Payload)
	if _, err := connB.Write(buf.Bytes()); err != nil {
		t.Fatalf("unexpected error writing segment: %s", err)
	}
	// Give recvLoop time to enter handleBlockingRequest -> WaitForMessage(0)
	time.Sleep(300 * time.Millisecond)

	// 1. The peer goes away / the connection is closed.
	_ = connB.Close()
	m.Stop()
	select {
	case <-server.DoneChan():
		t.Log("protocol finished after connection close")
		return
	case <-time.After(3 * time.Second):
		t.Errorf("LEAK: server protocol DoneChan still open 3s after the connection/muxer was closed: recvLoop is parked in WaitForMessage(0) (server.go:153)")
	}

	// 2. Even an explicit Stop() of the protocol does not help.
	server.Protocol.Stop()
	select {
	case <-server.DoneChan():
		t.Log("protocol finished after Protocol.Stop()")
	case <-time.After(3 * time.Second):
		t.Errorf("LEAK: server protocol DoneChan still open 3s after Protocol.Stop(): nothing but handleClientDone (which needs recvLoop) closes s.done")
	}
}
