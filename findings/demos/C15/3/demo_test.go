// C15 demo 3 - leios-votes client: voteLoop exits on a VoteFunc error without
// draining, the handler for the next (state-machine-permitted) Vote then blocks
// forever in select{<-DoneChan(); voteChan<-}.
//
// Package directory : protocol/leiosvotes   (internal test package leiosvotes; uses the
//                     existing test helpers testConnectionId, requireReadTestSegment,
//                     writeTestSegment and testVote from that package's *_test.go files)
// Install           : cp /tmp/c15_demos/3/demo_test.go <repo>/protocol/leiosvotes/c15_demo_test.go
// Run               : cd <repo> && GOFLAGS=-mod=mod go test ./protocol/leiosvotes/ -run 'TestC15Demo' -count=1 -v
//
// Site demonstrated:
//   protocol/leiosvotes/client.go:246  handleVote  select{<-c.DoneChan(); c.voteChan <- vote}
// (the four leiosnotify handlers, protocol/leiosnotify/client.go:220/227/234/241, have the
//  same shape and the same failure with NotificationFunc and PipelineLimit > 1)
//
// The test FAILS on the current code after a few seconds (it does not hang).

package leiosvotes

import (
	"errors"
	"net"
	"testing"
	"time"

	"github.com/blinklabs-io/gouroboros/cbor"
	"github.com/blinklabs-io/gouroboros/muxer"
	"github.com/blinklabs-io/gouroboros/protocol"
)

func TestC15DemoVoteFuncErrorWedgesRecvLoopForever(t *testing.T) {
	connA, connB := net.Pipe()
	defer connA.Close()
	defer connB.Close()

	m := muxer.New(connA)
	go func() {
		for range m.ErrorChan() {
		}
	}()

	inCallback := make(chan struct{})
	releaseCallback := make(chan struct{})
	calls := 0
	cfg := NewConfig(
		WithPipelineLimit(1),
		WithRequestNextCount(2), // the peer may (must) send two votes per request
		WithVoteFunc(func(ctx CallbackContext, vote Vote) error {
			calls++
			if calls == 1 {
				close(inCallback)
				<-releaseCallback
				// e.g. the application rejects the peer-supplied vote
				return errors.New("vote rejected by application")
			}
			return nil
		}),
	)
	errorChan := make(chan error, 10)
	client := NewClient(
		protocol.ProtocolOptions{
			ConnectionId: testConnectionId(),
			Muxer:        m,
			ErrorChan:    errorChan,
		},
		&cfg,
	)
	client.Start()
	m.Start()

	if err := client.Sync(); err != nil {
		t.Fatalf("unexpected Sync error: %s", err)
	}
	// Peer reads VotesRequestNext(2) ...
	_ = requireReadTestSegment(t, connB)
	// ... and answers with the two votes it was asked for (Busy->Busy, Busy->Idle).
	voteData, err := cbor.Encode(NewMsgVote(testVote()))
	if err != nil {
		t.Fatalf("unexpected error: %s", err)
	}
	payload := append(append([]byte{}, voteData...), voteData...)
	writeTestSegment(t, connB, muxer.NewSegment(ProtocolId, payload, true))

	select {
	case <-inCallback:
	case <-time.After(2 * time.Second):
		t.Fatalf("VoteFunc was not called")
	}
	// voteLoop is inside VoteFunc(vote 1); give recvLoop time to enter
	// handleVote for vote 2 and park on `c.voteChan <- vote`.
	time.Sleep(300 * time.Millisecond)
	close(releaseCallback) // VoteFunc returns the error -> SendError -> voteLoop returns

	select {
	case err := <-errorChan:
		t.Logf("protocol reported: %v (SendError also called Protocol.Stop())", err)
	case <-time.After(2 * time.Second):
		t.Fatalf("expected the VoteFunc error on the protocol error channel")
	}

	// Protocol.Stop() has been called by SendError. Additionally end the connection.
	_ = connB.Close()
	m.Stop()
	client.Protocol.Stop()

	select {
	case <-client.DoneChan():
		t.Log("protocol finished")
	case <-time.After(3 * time.Second):
		t.Errorf("LEAK: leios-votes client DoneChan still open 3s after VoteFunc error + Protocol.Stop() + connection close: recvLoop is wedged in handleVote (client.go:246), its DoneChan arm can never fire")
	}
}
