// C15 demo 1 - blockfetch client: recvLoop wedges inside a handler, GetBlock hangs.
//
// Package directory : protocol/blockfetch   (external test package blockfetch_test)
// Install           : cp /tmp/c15_demos/1/demo_test.go <repo>/protocol/blockfetch/c15_demo_test.go
// Run               : cd <repo> && GOFLAGS=-mod=mod go test ./protocol/blockfetch/ -run 'TestC15Demo' -count=1 -v
//
// Sites demonstrated:
//   protocol/blockfetch/client.go:624  handleBlock      c.blockChan <- block            (bare send, unbuffered)
//   protocol/blockfetch/client.go:650  handleBatchDone  select{batchDoneChan<-; <-DoneChan()}  (DoneChan is dead on recvLoop)
//
// Both tests FAIL on the current code (after a few seconds, they do not hang).

package blockfetch_test

import (
	"testing"
	"time"

	ouroboros "github.com/blinklabs-io/gouroboros"
	"github.com/blinklabs-io/gouroboros/cbor"
	"github.com/blinklabs-io/gouroboros/ledger"
	"github.com/blinklabs-io/gouroboros/protocol"
	"github.com/blinklabs-io/gouroboros/protocol/blockfetch"
	pcommon "github.com/blinklabs-io/gouroboros/protocol/common"
	ouroboros_mock "github.com/blinklabs-io/ouroboros-mock"
)

func c15TestBlock(t *testing.T) (pcommon.Point, []byte) {
	t.Helper()
	testBlock := ledger.BabbageBlock{
		BlockHeader: &ledger.BabbageBlockHeader{},
	}
	testBlock.BlockHeader.Body.BlockNumber = 12345
	testBlock.BlockHeader.Body.Slot = 23456
	blockCbor, err := cbor.Encode(testBlock)
	if err != nil {
		t.Fatalf("unexpected error: %s", err)
	}
	if _, err := cbor.Decode(blockCbor, &testBlock); err != nil {
		t.Fatalf("unexpected error: %s", err)
	}
	wrappedBlockCbor, err := cbor.Encode(blockfetch.WrappedBlock{
		Type:     ledger.BlockTypeBabbage,
		RawBlock: cbor.RawMessage(blockCbor),
	})
	if err != nil {
		t.Fatalf("unexpected error: %s", err)
	}
	return pcommon.NewPoint(23456, testBlock.Hash().Bytes()), wrappedBlockCbor
}

// runC15 connects a real ouroboros.Connection to a scripted peer that answers
// the client's RequestRange with peerReply, calls GetBlock and reports whether
// GetBlock / Client.Stop() come back.
func runC15(t *testing.T, point pcommon.Point, peerReply []protocol.Message) {
	conversation := []ouroboros_mock.ConversationEntry{
		ouroboros_mock.ConversationEntryHandshakeRequestGeneric,
		ouroboros_mock.ConversationEntryHandshakeNtNResponse,
		ouroboros_mock.ConversationEntryInput{
			ProtocolId:  blockfetch.ProtocolId,
			MessageType: blockfetch.MessageTypeRequestRange,
		},
		ouroboros_mock.ConversationEntryOutput{
			ProtocolId: blockfetch.ProtocolId,
			IsResponse: true,
			Messages:   peerReply,
		},
	}
	mockConn := ouroboros_mock.NewConnection(
		ouroboros_mock.ProtocolRoleClient,
		conversation,
	)
	go func() {
		// drain mock errors so the mock never blocks
		for range mockConn.(*ouroboros_mock.Connection).ErrorChan() {
		}
	}()
	oConn, err := ouroboros.New(
		ouroboros.WithConnection(mockConn),
		ouroboros.WithNetworkMagic(ouroboros_mock.MockNetworkMagic),
		ouroboros.WithNodeToNode(true),
		ouroboros.WithBlockFetchConfig(
			blockfetch.Config{SkipBlockValidation: true},
		),
	)
	if err != nil {
		t.Fatalf("unexpected error when creating Ouroboros object: %s", err)
	}
	go func() {
		// drain connection errors (default cap-10 channel, closed on shutdown)
		for range oConn.ErrorChan() {
		}
	}()
	client := oConn.BlockFetch().Client
	protoDone := client.DoneChan()

	getBlockDone := make(chan error, 1)
	go func() {
		_, err := client.GetBlock(point)
		getBlockDone <- err
	}()

	failed := false
	select {
	case err := <-getBlockDone:
		t.Logf("GetBlock returned: %v", err)
	case <-time.After(3 * time.Second):
		failed = true
		t.Errorf("HANG: GetBlock did not return within 3s although every peer message was permitted by the state machine")
	}

	// Now end the connection: whatever the peer did, this must release everything.
	closeDone := make(chan struct{})
	go func() {
		_ = oConn.Close()
		close(closeDone)
	}()
	select {
	case <-closeDone:
	case <-time.After(3 * time.Second):
		t.Errorf("HANG: Connection.Close() did not return within 3s")
	}
	select {
	case <-protoDone:
	case <-time.After(3 * time.Second):
		failed = true
		t.Errorf("LEAK: block-fetch client DoneChan still open 3s after Connection.Close(): recvLoop is wedged inside a message handler")
	}
	if failed {
		select {
		case err := <-getBlockDone:
			t.Logf("GetBlock returned after close: %v", err)
		case <-time.After(2 * time.Second):
			t.Errorf("HANG: GetBlock still blocked 2s after Connection.Close() (it waits on protocolDone, which can never close)")
		}
	}
	stopDone := make(chan struct{})
	go func() {
		_ = client.Stop()
		close(stopDone)
	}()
	select {
	case <-stopDone:
	case <-time.After(3 * time.Second):
		t.Errorf("HANG: blockfetch Client.Stop() did not return within 3s (blocked on <-doneChan, client.go:326)")
	}
}

// client.go:624 - peer sends StartBatch, Block, Block. GetBlock consumes one
// block and then waits for BatchDone; the handler for the second Block blocks
// forever in `c.blockChan <- block`.
func TestC15DemoBlockFetchSecondBlockWedgesRecvLoop(t *testing.T) {
	point, wrappedBlockCbor := c15TestBlock(t)
	runC15(t, point, []protocol.Message{
		blockfetch.NewMsgStartBatch(),
		blockfetch.NewMsgBlock(wrappedBlockCbor),
		blockfetch.NewMsgBlock(wrappedBlockCbor),
		blockfetch.NewMsgBatchDone(),
	})
}

// client.go:650 - peer sends StartBatch, BatchDone (empty batch). GetBlock is
// still waiting for a block; handleBatchDone blocks forever in
// select{batchDoneChan<-; <-DoneChan()}.
func TestC15DemoBlockFetchEmptyBatchWedgesRecvLoop(t *testing.T) {
	point, _ := c15TestBlock(t)
	runC15(t, point, []protocol.Message{
		blockfetch.NewMsgStartBatch(),
		blockfetch.NewMsgBatchDone(),
	})
}
