// Demonstration for the C06 known finding (fixed-width multi-asset quantities wrap on overflow).
// Copy into ledger/common/ and run:
//   go test -vet=off -count=1 -run TestC06FixedWidthAddWraps ./ledger/common/
// FAILS on the current tree: Add does not agree with per-asset integer addition for int64/uint64 quantities.
package common_test

import (
	"math"
	"math/big"
	"testing"

	"github.com/blinklabs-io/gouroboros/cbor"
	"github.com/blinklabs-io/gouroboros/ledger/common"
)

func TestC06FixedWidthAddWraps(t *testing.T) {
	policy := common.Blake2b224{1}
	name := cbor.NewByteString([]byte("a"))
	a := common.NewMultiAsset[int64](map[common.Blake2b224]map[cbor.ByteString]int64{policy: {name: math.MaxInt64}})
	b := common.NewMultiAsset[int64](map[common.Blake2b224]map[cbor.ByteString]int64{policy: {name: 1}})
	a.Add(&b)
	got := big.NewInt(a.Asset(policy, []byte("a")))
	want := new(big.Int).Add(big.NewInt(math.MaxInt64), big.NewInt(1))
	if got.Cmp(want) != 0 {
		t.Errorf("int64: MaxInt64 + 1 = %s, integer addition gives %s", got, want)
	}
	u := common.NewMultiAsset[uint64](map[common.Blake2b224]map[cbor.ByteString]uint64{policy: {name: math.MaxUint64}})
	v := common.NewMultiAsset[uint64](map[common.Blake2b224]map[cbor.ByteString]uint64{policy: {name: 1}})
	u.Add(&v)
	gotU := new(big.Int).SetUint64(u.Asset(policy, []byte("a")))
	wantU := new(big.Int).Add(new(big.Int).SetUint64(math.MaxUint64), big.NewInt(1))
	if gotU.Cmp(wantU) != 0 {
		t.Errorf("uint64: MaxUint64 + 1 = %s, integer addition gives %s", gotU, wantU)
	}
}
