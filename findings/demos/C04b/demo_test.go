package common

import (
	"testing"

	"github.com/blinklabs-io/gouroboros/cbor"
)

func TestDemoRejectReasonArity(t *testing.T) {
	data, _ := cbor.Encode([]any{uint64(0), "x", uint64(99), uint64(99)})
	var r RejectReasonData
	if err := r.UnmarshalCBOR(data); err == nil {
		t.Fatalf("4-element reject reason accepted: %+v", r)
	}
}
