package dijkstra

// Demonstration for the fixed C01 finding "hash-cache-reset ledger/dijkstra.(*DijkstraBlockHeader).UnmarshalCBOR".
// Copy into ledger/dijkstra/ of the tree before commit 3f6143c and run
//   go test -vet=off -count=1 -run TestC01LeiosHeaderHashFollowsStoredBytes ./ledger/dijkstra/
// It fails there (Hash() answers for the first header's bytes) and passes from 3f6143c on.

import (
	"encoding/hex"
	"testing"

	"github.com/blinklabs-io/gouroboros/cbor"
	"github.com/blinklabs-io/gouroboros/ledger/common"
)

func TestC01LeiosHeaderHashFollowsStoredBytes(t *testing.T) {
	rawA, err := hex.DecodeString(leiosExtendedHeaderHex)
	if err != nil {
		t.Fatal(err)
	}
	rawB := append([]byte(nil), rawA...)
	rawB[len(rawB)-1] ^= 0xff // another signature byte: still a well-formed header
	var h DijkstraBlockHeader
	if _, err := cbor.Decode(rawA, &h); err != nil {
		t.Fatal(err)
	}
	if h.Hash() != common.Blake2b256Hash(rawA) {
		t.Fatal("hash of A")
	}
	if _, err := cbor.Decode(rawB, &h); err != nil {
		t.Fatal(err)
	}
	if string(h.Cbor()) != string(rawB) {
		t.Fatal("stored bytes are not B")
	}
	if got, want := h.Hash(), common.Blake2b256Hash(rawB); got != want {
		t.Fatalf("Hash() = %s, but the stored bytes hash to %s", got, want)
	}
}
