package common_test

import (
	"bytes"
	"fmt"
	"testing"

	"github.com/blinklabs-io/gouroboros/ledger/common"
)

// A minimal Shelley-style block
//   [ header, [body], [witness_set], {}, [] ]
// with body = {0: [], 1: [[h'aa', 5]], 2: 0} and witness_set = {}.
// Every array header is emitted either minimally (0x80+n) or with the
// equally valid one-byte-length form (0x98 n). The byte ranges reported for the
// body, the witness set and the output must select exactly those components.
var (
	demoC07Output  = []byte{0x82, 0x41, 0xaa, 0x05}
	demoC07Witness = []byte{0xa0}
)

func demoC07ArrHdr(n byte, nonMinimal bool) []byte {
	if nonMinimal {
		return []byte{0x98, n}
	}
	return []byte{0x80 + n}
}

func demoC07Body(outputsNonMinimal bool) []byte {
	var b bytes.Buffer
	b.Write([]byte{0xa3, 0x00, 0x80, 0x01})
	b.Write(demoC07ArrHdr(1, outputsNonMinimal))
	b.Write(demoC07Output)
	b.Write([]byte{0x02, 0x00})
	return b.Bytes()
}

func demoC07Block(outer, bodies, wits, outputs bool) (block, body []byte) {
	body = demoC07Body(outputs)
	var b bytes.Buffer
	b.Write(demoC07ArrHdr(5, outer))
	b.Write([]byte{0x82, 0x01, 0x02}) // header stand-in
	b.Write(demoC07ArrHdr(1, bodies))
	b.Write(body)
	b.Write(demoC07ArrHdr(1, wits))
	b.Write(demoC07Witness)
	b.WriteByte(0xa0) // metadata map
	b.WriteByte(0x80) // invalid txs
	return b.Bytes(), body
}

func demoC07Slice(data []byte, r common.ByteRange) []byte {
	end := int(r.Offset) + int(r.Length)
	if int(r.Offset) > len(data) || end > len(data) {
		return nil
	}
	return data[r.Offset:end]
}

func demoC07Check(t *testing.T, api string, block, body []byte, offs *common.BlockTransactionOffsets) {
	t.Helper()
	if offs == nil || len(offs.Transactions) != 1 {
		t.Errorf("%s: expected 1 transaction location, got %+v", api, offs)
		return
	}
	loc := offs.Transactions[0]
	if got := demoC07Slice(block, loc.Body); !bytes.Equal(got, body) {
		t.Errorf("%s: Body range %+v selects % x, want the body % x", api, loc.Body, got, body)
	}
	if got := demoC07Slice(block, loc.Witness); !bytes.Equal(got, demoC07Witness) {
		t.Errorf("%s: Witness range %+v selects % x, want % x", api, loc.Witness, got, demoC07Witness)
	}
	if len(loc.Outputs) != 1 {
		t.Errorf("%s: expected 1 output range, got %d", api, len(loc.Outputs))
	} else if got := demoC07Slice(block, loc.Outputs[0]); !bytes.Equal(got, demoC07Output) {
		t.Errorf("%s: Output range %+v selects % x, want the output % x", api, loc.Outputs[0], got, demoC07Output)
	}
}

func TestDemoC07OffsetsWithNonMinimalArrayHeaders(t *testing.T) {
	cases := []struct{ outer, bodies, wits, outputs bool }{
		{false, false, false, false}, // canonical control
		{true, false, false, false},
		{false, true, false, false},
		{false, false, true, false},
		{false, false, false, true},
		{true, true, true, true},
	}
	for _, c := range cases {
		name := fmt.Sprintf("nonminimal_outer=%v_bodies=%v_witnesses=%v_outputs=%v",
			c.outer, c.bodies, c.wits, c.outputs)
		t.Run(name, func(t *testing.T) {
			block, body := demoC07Block(c.outer, c.bodies, c.wits, c.outputs)
			t.Logf("block: % x", block)
			offs, err := common.ExtractTransactionOffsets(block)
			if err != nil {
				t.Errorf("ExtractTransactionOffsets: %v", err)
			} else {
				demoC07Check(t, "ExtractTransactionOffsets", block, body, offs)
			}
			dec, err := common.NewStreamingBlockDecoder(block)
			if err != nil {
				t.Fatalf("NewStreamingBlockDecoder: %v", err)
			}
			soffs, err := dec.DecodeWithOffsets()
			if err != nil {
				t.Errorf("DecodeWithOffsets: %v", err)
			} else {
				demoC07Check(t, "StreamingBlockDecoder.DecodeWithOffsets", block, body, soffs)
			}
		})
	}
}
