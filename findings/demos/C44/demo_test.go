package pipeline_test

import (
	"context"
	"sync"
	"testing"
	"time"

	"github.com/blinklabs-io/gouroboros/internal/testdata"
	"github.com/blinklabs-io/gouroboros/ledger"
	"github.com/blinklabs-io/gouroboros/pipeline"
	pcommon "github.com/blinklabs-io/gouroboros/protocol/common"
)

// Schedule:
//  1. the apply function blocks on the first block, so the (tiny) pipeline fills up
//  2. Submit calls are made until one blocks on the full pipeline; its context
//     expires and it returns an error (the caller is told the block was NOT accepted)
//  3. the apply function is released
//  4. two more blocks are submitted and accepted
// Every accepted block must reach the apply function. If the abandoned Submit
// consumed a sequence number, the in-order apply stage waits for it forever and
// the blocks from step 4 are never applied.
func TestDemoC44CancelledSubmitLeavesNoSequenceGap(t *testing.T) {
	blockCbor := testdata.MustDecodeHex(testdata.ConwayBlockHex)
	tip := pcommon.Tip{Point: pcommon.NewPoint(1000, []byte{1, 2, 3}), BlockNumber: 1}

	release := make(chan struct{})
	var mu sync.Mutex
	var appliedSeqs []uint64
	applyFunc := func(item *pipeline.BlockItem) error {
		<-release // blocks until step 3; a closed channel never blocks afterwards
		mu.Lock()
		appliedSeqs = append(appliedSeqs, item.SequenceNumber())
		mu.Unlock()
		return nil
	}
	p := pipeline.NewBlockPipeline(
		pipeline.WithDecodeWorkers(1),
		pipeline.WithValidateWorkers(0),
		pipeline.WithPrefetchBufferSize(1),
		pipeline.WithSkipBodyHashValidation(true),
		pipeline.WithApplyFunc(applyFunc),
	)
	ctx, cancel := context.WithCancel(context.Background())
	defer cancel()
	if err := p.Start(ctx); err != nil {
		t.Fatal(err)
	}
	defer p.Stop()
	// keep the output side flowing
	go func() {
		for range p.Results() {
		}
	}()
	go func() {
		for range p.Errors() {
		}
	}()

	// steps 1+2
	accepted := 0
	cancelled := 0
	for i := 0; i < 50 && cancelled == 0; i++ {
		sctx, scancel := context.WithTimeout(ctx, 300*time.Millisecond)
		err := p.Submit(sctx, uint(ledger.BlockTypeConway), blockCbor, tip)
		scancel()
		if err == nil {
			accepted++
		} else {
			cancelled++
			t.Logf("Submit #%d gave up on the full pipeline: %v", i, err)
		}
	}
	if cancelled != 1 {
		t.Fatalf("fixture problem: pipeline never filled up (accepted=%d)", accepted)
	}
	// step 3
	close(release)
	// step 4
	for i := 0; i < 2; i++ {
		sctx, scancel := context.WithTimeout(ctx, 5*time.Second)
		err := p.Submit(sctx, uint(ledger.BlockTypeConway), blockCbor, tip)
		scancel()
		if err != nil {
			t.Fatalf("late Submit failed: %v", err)
		}
		accepted++
	}
	// all accepted blocks must be applied
	deadline := time.Now().Add(5 * time.Second)
	for {
		mu.Lock()
		n := len(appliedSeqs)
		mu.Unlock()
		if n == accepted {
			break
		}
		if time.Now().After(deadline) {
			mu.Lock()
			defer mu.Unlock()
			t.Fatalf("%d blocks were accepted by Submit but only %d were applied after 5s (applied sequence numbers %v): the apply stage is stalled on the sequence number consumed by the abandoned Submit",
				accepted, n, appliedSeqs)
		}
		time.Sleep(10 * time.Millisecond)
	}
	mu.Lock()
	t.Logf("accepted=%d applied sequence numbers=%v", accepted, appliedSeqs)
	mu.Unlock()
}
