#!/bin/bash
# usage: run.sh ID pkgdir TestName
export GOFLAGS=-mod=mod
ID=$1; PKG=$2; TEST=$3
for wt in base head; do
  d=/tmp/demo_$wt
  cp /tmp/demos/$ID/demo_test.go $d/$PKG/zz_demo_${ID}_test.go
  echo "=== $wt"
  (cd $d && timeout 300 go test -count=1 -run "$TEST" ./$PKG/ 2>&1 | tail -${LINES_OUT:-25})
  rm -f $d/$PKG/zz_demo_${ID}_test.go
done
