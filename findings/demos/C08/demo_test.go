package mary_test

import (
	"testing"

	"github.com/blinklabs-io/gouroboros/cbor"
	"github.com/blinklabs-io/gouroboros/ledger/mary"
)

// An output value [1, {policy(28 bytes): {"A": -1}}]. Output quantities are
// unsigned; only mint may be negative. Decoding must fail.
func TestDemoC08NegativeOutputQuantity(t *testing.T) {
	data := []byte{0x82, 0x01, 0xa1, 0x58, 0x1c}
	data = append(data, make([]byte, 28)...) // policy id
	data = append(data, 0xa1, 0x41, 'A', 0x20) // {"A": -1}
	var v mary.MaryTransactionOutputValue
	_, err := cbor.Decode(data, &v)
	if err == nil {
		t.Fatalf("output value with quantity -1 decoded without error: amount=%d assets=%s",
			v.Amount, v.Assets.String())
	}
	// positive bignum 2^64 (tag 2, 9 bytes) is also outside uint64
	data2 := []byte{0x82, 0x01, 0xa1, 0x58, 0x1c}
	data2 = append(data2, make([]byte, 28)...)
	data2 = append(data2, 0xa1, 0x41, 'A', 0xc2, 0x49, 0x01, 0, 0, 0, 0, 0, 0, 0, 0)
	var v2 mary.MaryTransactionOutputValue
	if _, err := cbor.Decode(data2, &v2); err == nil {
		t.Fatalf("output value with quantity 2^64 decoded without error: assets=%s", v2.Assets.String())
	}
}
