// Demonstration for the C41 known finding (density metric chosen per pair).
// Copy into consensus/ and run:
//   go test -vet=off -count=1 -run TestC41MixedCandidatesNotTransitive ./consensus/
// FAILS on the current tree: with a deep fork and a candidate set that mixes tips that can count blocks
// in the Genesis window (WindowedChainTip) with tips that cannot (SimpleChainTip), CompareWithDensity is
// not transitive and PreferredWithDensity depends on the order of the candidates.
package consensus_test

import (
	"testing"

	"github.com/blinklabs-io/gouroboros/consensus"
)

func TestC41MixedCandidatesNotTransitive(t *testing.T) {
	sel := consensus.NewPraosChainSelectorWithWindow(10, 100)
	fork := consensus.ForkPoint{Slot: 1000, BlockNumber: 100}
	tip := uint64(200) // tip - fork = 100 > k = 10: deep fork
	vrf := []byte{1}
	// a: many blocks inside the window, then a long sparse tail: window count 10, overall ratio 11/10000
	aSlots := []uint64{1001, 1002, 1003, 1004, 1005, 1006, 1007, 1008, 1009, 1010, 11000}
	a := consensus.NewWindowedChainTip(11000, 150, vrf, aSlots)
	// b: few blocks in the window but dense overall: window count 5, overall ratio 5/5
	bSlots := []uint64{1001, 1002, 1003, 1004, 1005}
	b := consensus.NewWindowedChainTip(1005, 150, vrf, bSlots)
	// c: no window information, ratio 1/2
	c := consensus.NewSimpleChainTipWithDensity(1100, 150, vrf, 50, 100)

	ab := sel.CompareWithDensity(a, b, fork, tip)
	bc := sel.CompareWithDensity(b, c, fork, tip)
	ac := sel.CompareWithDensity(a, c, fork, tip)
	t.Logf("a vs b = %d, b vs c = %d, a vs c = %d", ab, bc, ac)
	if ab > 0 && bc > 0 && ac < 0 {
		t.Errorf("not transitive: a > b and b > c but a < c")
	}
	p1 := sel.PreferredWithDensity([]consensus.ChainTip{a, b, c}, fork, tip)
	p2 := sel.PreferredWithDensity([]consensus.ChainTip{c, b, a}, fork, tip)
	p3 := sel.PreferredWithDensity([]consensus.ChainTip{b, c, a}, fork, tip)
	if p1 != p2 || p2 != p3 {
		t.Errorf("preferred candidate depends on candidate order: %p %p %p", p1, p2, p3)
	}
}
