// Copy into: ledger/common/   (package common_test)
// Run:       go test ./ledger/common/ -run TestC02DecodeCBORItemEndUnboundedRecursion -count=1
// Optional hard crash (fatal "goroutine stack exceeds 16777216-byte limit"):
//            C02_CRASH=1 go test ./ledger/common/ -run TestC02DecodeCBORItemEndUnboundedRecursion -count=1
//
// Entry points: common.DecodeAuxiliaryDataToMetadata(raw) and
// (*common.AlonzoAuxiliaryData).UnmarshalCBOR(raw) called directly with
//   d90103 a1 00 81*N 00        (259({0: [[[[...[0]...]]]]}), N nested arrays)
// Both take the "d90103" fast path (decodeTag259Content), which skips
// cbor.Decode and therefore fxamacker's MaxNestedLevels=256 check, and hand the
// unvalidated remainder to decodeAuxiliaryMetadataOnly -> decodeCBORItemEnd
// (metadata.go:316), a hand-written skipper that recurses once per nesting
// level with no depth limit. Each level costs ~80 bytes of goroutine stack, so
// the stack grows linearly with attacker-chosen depth; at ~13M levels (a
// 13 MB input) Go's 1 GB stack limit is hit and the process dies with an
// unrecoverable "stack overflow" fatal error. The demo keeps it safe with
// N=400000 (a 400 KB input) and fails when the decode goroutine's stack grew
// past 16 MiB; with C02_CRASH=1 it lowers the limit to 16 MiB via
// debug.SetMaxStack to show the actual crash.
package common_test

import (
	"bytes"
	"os"
	"runtime"
	"runtime/debug"
	"testing"

	"github.com/blinklabs-io/gouroboros/ledger/common"
)

func c02DeepAuxInput(n int) []byte {
	input := append(
		[]byte{0xd9, 0x01, 0x03, 0xa1, 0x00},
		bytes.Repeat([]byte{0x81}, n)...,
	)
	return append(input, 0x00)
}

func c02StackGrowth(f func()) int64 {
	var before, after runtime.MemStats
	runtime.GC()
	runtime.ReadMemStats(&before)
	done := make(chan struct{})
	go func() {
		defer close(done)
		f()
		// Read while this goroutine's (grown) stack is still live.
		runtime.ReadMemStats(&after)
	}()
	<-done
	return int64(after.StackInuse) - int64(before.StackInuse)
}

func TestC02DecodeCBORItemEndUnboundedRecursion(t *testing.T) {
	const depth = 400000
	input := c02DeepAuxInput(depth)

	if os.Getenv("C02_CRASH") != "" {
		debug.SetMaxStack(16 << 20)
	}

	var err1, err2 error
	g1 := c02StackGrowth(func() {
		_, err1 = common.DecodeAuxiliaryDataToMetadata(input)
	})
	g2 := c02StackGrowth(func() {
		var aux common.AlonzoAuxiliaryData
		err2 = aux.UnmarshalCBOR(input)
	})
	t.Logf("DecodeAuxiliaryDataToMetadata: err=%v, stack grew by %d bytes", err1, g1)
	t.Logf("AlonzoAuxiliaryData.UnmarshalCBOR: err=%v, stack grew by %d bytes", err2, g2)

	// Control: the same nesting behind a validated path is cut off at 256
	// levels and needs no extra stack.
	shallow := c02StackGrowth(func() {
		_, _ = common.DecodeAuxiliaryDataToMetadata(c02DeepAuxInput(200))
	})
	t.Logf("control depth=200: stack grew by %d bytes", shallow)

	if g1 > 16<<20 {
		t.Errorf(
			"DecodeAuxiliaryDataToMetadata recursed through all %d nesting levels of a %d-byte input before any depth check (goroutine stack grew by %.0f MiB; library nesting limit is 256)",
			depth, len(input), float64(g1)/(1<<20),
		)
	}
	if g2 > 16<<20 {
		t.Errorf(
			"AlonzoAuxiliaryData.UnmarshalCBOR recursed through all %d nesting levels of a %d-byte input before any depth check (goroutine stack grew by %.0f MiB; library nesting limit is 256)",
			depth, len(input), float64(g2)/(1<<20),
		)
	}
}
