// Copy into: ledger/common/   (package common_test)
// Run:       go test ./ledger/common/ -run TestC02LeiosEndorserBlockClaimedMapLength -count=1
//
// Entry point: (*common.LeiosEndorserBlock).UnmarshalCBOR called directly with
// the 5-byte input ba00200000 (a bare CBOR map header claiming 2,097,152
// pairs, with no content). The "bare references map" branch hands the input
// straight to decodeLeiosTransactionReferences, which reads the claimed count
// with StreamDecoder.DecodeMapHeader (accepts anything up to MaxInt32) and
// does make([]LeiosTransactionReference, 0, count) and
// make(map[Blake2b256]struct{}, count) (leios_endorser_block.go:191-192)
// before reading a single entry. A claim of 7fffffff would request > 70 GiB.
//
// Note: the same bytes passed through cbor.Decode / NewLeiosEndorserBlockFromCbor
// are rejected first by fxamacker's well-formedness pre-check (unexpected EOF),
// so only the direct UnmarshalCBOR call (a public method taking raw bytes)
// exposes this.
package common_test

import (
	"encoding/hex"
	"runtime"
	"testing"

	"github.com/blinklabs-io/gouroboros/ledger/common"
)

func TestC02LeiosEndorserBlockClaimedMapLength(t *testing.T) {
	input, _ := hex.DecodeString("ba00200000")
	var before, after runtime.MemStats
	runtime.GC()
	runtime.ReadMemStats(&before)
	var blk common.LeiosEndorserBlock
	err := blk.UnmarshalCBOR(input)
	runtime.ReadMemStats(&after)
	delta := after.TotalAlloc - before.TotalAlloc
	t.Logf("err=%v, allocated %d bytes (%.1f MiB) for a %d-byte input",
		err, delta, float64(delta)/(1<<20), len(input))
	if delta > 50<<20 {
		t.Fatalf(
			"UnmarshalCBOR(%x) allocated %.1f MiB for a %d-byte input: memory follows the claimed map length",
			input, float64(delta)/(1<<20), len(input),
		)
	}
}
