// Copy into: ledger/   (package ledger_test)
// Run:       go test ./ledger/ -run TestC02ApplyTxErrorShortFailure -count=1
//
// Entry point: ledger.NewTxSubmitErrorFromCbor (the decoder used for
// local-tx-submission reject reasons) with the 6-byte input 818206818100,
// i.e. [[6, [[0]]]]: a Conway-era ApplyTxError whose only failure is the
// one-element list [0] (constructor 0 = UTXOW failure, payload missing).
// ApplyTxError.UnmarshalCBOR indexes tmpFailure[1] (ledger/error.go:652)
// after only checking, via DecodeIdFromList, that the list is non-empty.
// Also reachable directly: cbor.Decode(818100, &ledger.ApplyTxError{}).
package ledger_test

import (
	"encoding/hex"
	"testing"

	"github.com/blinklabs-io/gouroboros/cbor"
	"github.com/blinklabs-io/gouroboros/ledger"
)

func TestC02ApplyTxErrorShortFailure(t *testing.T) {
	input, _ := hex.DecodeString("818206818100")
	func() {
		defer func() {
			if r := recover(); r != nil {
				t.Errorf("NewTxSubmitErrorFromCbor(%x) panicked: %v", input, r)
			}
		}()
		_, err := ledger.NewTxSubmitErrorFromCbor(input)
		t.Logf("NewTxSubmitErrorFromCbor returned err=%v", err)
	}()
	input2, _ := hex.DecodeString("818100")
	func() {
		defer func() {
			if r := recover(); r != nil {
				t.Errorf("cbor.Decode(%x, *ApplyTxError) panicked: %v", input2, r)
			}
		}()
		_, err := cbor.Decode(input2, &ledger.ApplyTxError{})
		t.Logf("cbor.Decode returned err=%v", err)
	}()
}
