// Copy into: ledger/byron/   (package byron_test)
// Run:       go test ./ledger/byron/ -run TestC02CanonicalMapHashPanic -count=1
//
// Entry point: byron.NewByronMainBlockFromCbor (default VerifyConfig).
// Input: the bundled mainnet Byron main block (internal/testdata.ByronBlockHex)
// with its 6-byte SSC payload 8203d9010280 replaced by
//   d879 8203d901028184d87981c2010000 4101
// i.e. 121([3, 258([[121([2(1)]), 0, 0, h'01']])]).
// The whole SSC payload is wrapped in a Plutus-style constructor tag (121),
// whose fields cbor.Value keeps raw (ConstructorDecoder), so the malformed
// builtin tag "2(1)" (bignum tag followed by an integer) inside the VSS
// certificate entry survives block decoding. decodeSscPayloadParts then
// decodes the preserved bytes into []RawMessage (fxamacker silently skips the
// unregistered outer tag 121), again without looking inside the entries.
// ValidateBodyProof -> checkSscProofShape -> localCertificatesHash ->
// canonicalMapHash re-encodes the entry through cbor.Encode, whose
// RawMessage well-formedness check DOES validate builtin tags, fails, and
// canonicalMapHash panics ("CBOR encoding that should never fail has failed").
package byron_test

import (
	"encoding/hex"
	"os"
	"strings"
	"testing"

	"github.com/blinklabs-io/gouroboros/cbor"
	"github.com/blinklabs-io/gouroboros/internal/testdata"
	"github.com/blinklabs-io/gouroboros/ledger/byron"
)

func TestC02CanonicalMapHashPanic(t *testing.T) {
	raw, err := hex.DecodeString(strings.TrimSpace(testdata.ByronBlockHex))
	if err != nil {
		t.Fatal(err)
	}
	oldSsc, _ := hex.DecodeString("8203d9010280")
	newSsc, _ := hex.DecodeString("d8798203d901028184d87981c20100004101")

	var block []cbor.RawMessage
	if _, err := cbor.Decode(raw, &block); err != nil {
		t.Fatal(err)
	}
	var body []cbor.RawMessage
	if _, err := cbor.Decode(block[1], &body); err != nil {
		t.Fatal(err)
	}
	if hex.EncodeToString(body[1]) != hex.EncodeToString(oldSsc) {
		t.Fatalf("unexpected fixture ssc payload %x", []byte(body[1]))
	}
	// Splice the new SSC payload in at the byte level (the body is a
	// definite-length array of RawMessages, so lengths of the enclosing
	// arrays do not change).
	var newBody []byte
	newBody = append(newBody, 0x80|byte(len(body)))
	for i, part := range body {
		if i == 1 {
			newBody = append(newBody, newSsc...)
		} else {
			newBody = append(newBody, part...)
		}
	}
	var input []byte
	input = append(input, 0x80|byte(len(block)))
	for i, part := range block {
		if i == 1 {
			input = append(input, newBody...)
		} else {
			input = append(input, part...)
		}
	}

	if p := os.Getenv("C02_DUMP_INPUT"); p != "" {
		_ = os.WriteFile(p, []byte(hex.EncodeToString(input)), 0o644)
	}
	defer func() {
		if r := recover(); r != nil {
			t.Fatalf("NewByronMainBlockFromCbor panicked on %d-byte input: %v", len(input), r)
		}
	}()
	_, err = byron.NewByronMainBlockFromCbor(input)
	t.Logf("returned error (expected, no panic): %v", err)
}
