package localtxmonitor_test

import (
	"testing"

	"github.com/blinklabs-io/gouroboros/cbor"
	pcommon "github.com/blinklabs-io/gouroboros/protocol/common"
	"github.com/blinklabs-io/gouroboros/protocol/localtxmonitor"
)

// A Point is either [] (origin) or [slot, hash]. Anything else is malformed.
// MsgReplyNextTx is [6] or [6, [era, tx]]; anything else is malformed.
func TestDemoC04PointAndReplyNextTxArity(t *testing.T) {
	// Point with one element: [1]
	var p1 pcommon.Point
	if _, err := cbor.Decode([]byte{0x81, 0x01}, &p1); err == nil {
		t.Errorf("Point: 1-element list [1] decoded without error as %+v", p1)
	}
	// Point with three elements: [1, h'aa', 0]
	var p3 pcommon.Point
	if _, err := cbor.Decode([]byte{0x83, 0x01, 0x41, 0xaa, 0x00}, &p3); err == nil {
		t.Errorf("Point: 3-element list decoded without error as %+v", p3)
	}
	// ReplyNextTx as an empty list: []
	var m0 localtxmonitor.MsgReplyNextTx
	if _, err := cbor.Decode([]byte{0x80}, &m0); err == nil {
		t.Errorf("MsgReplyNextTx: empty list decoded without error")
	}
	// ReplyNextTx with a trailing extra element: [6, [1, 24(h'00')], 0]
	var m3 localtxmonitor.MsgReplyNextTx
	if _, err := cbor.Decode(
		[]byte{0x83, 0x06, 0x82, 0x01, 0xd8, 0x18, 0x41, 0x00, 0x00}, &m3,
	); err == nil {
		t.Errorf("MsgReplyNextTx: 3-element message decoded without error")
	}
	// ReplyNextTx with an over-long tx wrapper: [6, [1, 24(h'00'), 0]]
	var mw localtxmonitor.MsgReplyNextTx
	if _, err := cbor.Decode(
		[]byte{0x82, 0x06, 0x83, 0x01, 0xd8, 0x18, 0x41, 0x00, 0x00}, &mw,
	); err == nil {
		t.Errorf("MsgReplyNextTx: 3-element tx wrapper decoded without error")
	}
	// Sanity: the well-formed shapes still decode
	var ok localtxmonitor.MsgReplyNextTx
	if _, err := cbor.Decode(
		[]byte{0x82, 0x06, 0x82, 0x01, 0xd8, 0x18, 0x41, 0x00}, &ok,
	); err != nil {
		t.Errorf("well-formed ReplyNextTx rejected: %v", err)
	}
	var origin pcommon.Point
	if _, err := cbor.Decode([]byte{0x80}, &origin); err != nil {
		t.Errorf("origin point rejected: %v", err)
	}
}
