package alonzo_test

import (
	"testing"

	mockledger "github.com/blinklabs-io/ouroboros-mock/ledger"

	"github.com/blinklabs-io/gouroboros/cbor"
	"github.com/blinklabs-io/gouroboros/ledger/alonzo"
	"github.com/blinklabs-io/gouroboros/ledger/common"
	"github.com/blinklabs-io/gouroboros/ledger/shelley"
)

// fee = 101, collateralPercentage = 150: the ledger demands
// balance*100 >= 101*150 = 15150, i.e. balance >= 152 (151*100 = 15100 < 15150).
// Floor division gives 15150/100 = 151 and lets a balance of 151 through.
func TestDemoC32CollateralFloorDivision(t *testing.T) {
	txId := "d228b482a1aae768e4a796380f49e021d9c21f70d3c12cb186b188dedfc0ee22"
	tx := &alonzo.AlonzoTransaction{
		Body: alonzo.AlonzoTransactionBody{TxFee: 101},
		WitnessSet: alonzo.AlonzoTransactionWitnessSet{
			WsRedeemers: alonzo.AlonzoRedeemers{
				Redeemers: []alonzo.AlonzoRedeemer{{}},
			},
		},
	}
	utxos := []common.Utxo{
		{
			Id:     shelley.NewShelleyTransactionInput(txId, 0),
			Output: shelley.ShelleyTransactionOutput{OutputAmount: 151},
		},
		{
			Id:     shelley.NewShelleyTransactionInput(txId, 1),
			Output: shelley.ShelleyTransactionOutput{OutputAmount: 152},
		},
	}
	ls := mockledger.NewLedgerStateBuilder().WithUtxos(utxos).Build()
	pp := &alonzo.AlonzoProtocolParameters{CollateralPercentage: 150}

	tx.Body.TxCollateral = cbor.NewSetType(
		[]shelley.ShelleyTransactionInput{shelley.NewShelleyTransactionInput(txId, 0)}, false)
	if err := alonzo.UtxoValidateInsufficientCollateral(tx, 0, ls, pp); err == nil {
		t.Errorf("collateral 151 accepted for fee 101 at 150%% (151*100=15100 < 15150)")
	}
	tx.Body.TxCollateral = cbor.NewSetType(
		[]shelley.ShelleyTransactionInput{shelley.NewShelleyTransactionInput(txId, 1)}, false)
	if err := alonzo.UtxoValidateInsufficientCollateral(tx, 0, ls, pp); err != nil {
		t.Errorf("collateral 152 rejected for fee 101 at 150%%: %v", err)
	}
}
