// Demonstration for the C29 known finding (absent validity bounds are conflated with slot numbers).
//
// Copy into ledger/allegra/ and run:
//   go test -vet=off -count=1 -run TestC29AbsentBounds ./ledger/allegra/
//
// Ledger semantics (cardano-ledger, Allegra timelocks):
//   RequireTimeStart lock  holds iff the tx HAS a validity start s and lock <= s      (absent start: never)
//   RequireTimeExpire lock holds iff the tx HAS an upper bound e and e <= lock        (absent bound: never)
// The library's accessors return 0 for an absent bound; the rule maps TTL 0 to MaxUint64. Both tests
// below therefore FAIL on the current tree: the library accepts scripts the ledger rejects.
package allegra_test

import (
	"testing"

	"github.com/blinklabs-io/gouroboros/cbor"
	"github.com/blinklabs-io/gouroboros/ledger/allegra"
	"github.com/blinklabs-io/gouroboros/ledger/common"
)

func c29Script(t *testing.T, hexCbor []byte) common.NativeScript {
	t.Helper()
	var ns common.NativeScript
	if _, err := cbor.Decode(hexCbor, &ns); err != nil {
		t.Fatalf("decode script: %v", err)
	}
	return ns
}

func TestC29AbsentBounds(t *testing.T) {
	// [4, 0]  = invalid_before 0
	before0 := c29Script(t, []byte{0x82, 0x04, 0x00})
	// [5, 0xffffffffffffffff] = invalid_hereafter MaxUint64
	hereafterMax := c29Script(t, []byte{0x82, 0x05, 0x1b, 0xff, 0xff, 0xff, 0xff, 0xff, 0xff, 0xff, 0xff})
	for _, tc := range []struct {
		name   string
		script common.NativeScript
	}{
		{"invalid_before 0, tx without validity start", before0},
		{"invalid_hereafter MaxUint64, tx without ttl", hereafterMax},
	} {
		t.Run(tc.name, func(t *testing.T) {
			// a transaction body with neither validity start (key 8) nor ttl (key 3)
			tx := &allegra.AllegraTransaction{}
			tx.WitnessSet.WsNativeScripts = []common.NativeScript{tc.script}
			if tx.ValidityIntervalStart() != 0 || tx.TTL() != 0 {
				t.Fatalf("expected absent bounds")
			}
			err := allegra.UtxoValidateNativeScripts(tx, 100, nil, nil)
			if err == nil {
				t.Errorf("rule accepted the script although the transaction has no such bound (ledger: an absent bound never satisfies a time lock)")
			}
		})
	}
}
