// Copy into protocol/handshake; run: go test -count=1 -run TestDemoC18RefusalReachesInitiator ./protocol/handshake/
//
// C18: when the responder refuses (no common version) the initiator must report the refusal.
// Before the fix the responder queued the Refuse message with SendMessage and then returned an
// error from the handler, which stops the protocol at once; the send loop usually saw the stop
// signal before it wrote the queued message, so the initiator never received the refusal.
package handshake_test

import (
	"net"
	"slices"
	"strings"
	"sync"
	"testing"
	"time"

	"github.com/blinklabs-io/gouroboros/connection"
	"github.com/blinklabs-io/gouroboros/muxer"
	"github.com/blinklabs-io/gouroboros/protocol"
	"github.com/blinklabs-io/gouroboros/protocol/handshake"
)

const c18Magic = 764824073

type c18Outcome struct {
	clientSettled  bool
	clientFinished bool
	clientVersion  uint16
	clientData     protocol.VersionData
	clientQueryMap protocol.ProtocolVersionMap
	clientErr      error
	serverFinished bool
	serverVersion  uint16
	serverErr      error
}

func c18Subset(
	m protocol.ProtocolVersionMap,
	keep func(uint16) bool,
) protocol.ProtocolVersionMap {
	ret := protocol.ProtocolVersionMap{}
	for k, v := range m {
		if keep(k) {
			ret[k] = v
		}
	}
	return ret
}

func c18Keys(m protocol.ProtocolVersionMap) []uint16 {
	ret := make([]uint16, 0, len(m))
	for k := range m {
		ret = append(ret, k)
	}
	slices.Sort(ret)
	return ret
}

// c18RunHandshake performs one handshake between a library client and a
// library server and reports what each side observed.
func c18RunHandshake(
	t *testing.T,
	mode protocol.ProtocolMode,
	clientTable protocol.ProtocolVersionMap,
	serverTable protocol.ProtocolVersionMap,
) c18Outcome {
	t.Helper()
	connId := connection.ConnectionId{
		LocalAddr:  &net.TCPAddr{IP: net.IPv4(127, 0, 0, 1), Port: 1},
		RemoteAddr: &net.TCPAddr{IP: net.IPv4(127, 0, 0, 1), Port: 2},
	}
	connC, connS := net.Pipe()
	defer connC.Close()
	defer connS.Close()
	muxC := muxer.New(connC)
	muxS := muxer.New(connS)
	defer muxC.Stop()
	defer muxS.Stop()

	var mu sync.Mutex
	var out c18Outcome
	clientDone := make(chan struct{}, 4)
	serverDone := make(chan struct{}, 4)
	clientErrChan := make(chan error, 4)
	serverErrChan := make(chan error, 4)

	clientCfg := handshake.NewConfig(
		handshake.WithProtocolVersionMap(clientTable),
		handshake.WithFinishedFunc(
			func(_ handshake.CallbackContext, v uint16, vd protocol.VersionData) error {
				mu.Lock()
				defer mu.Unlock()
				out.clientFinished = true
				out.clientVersion = v
				out.clientData = vd
				clientDone <- struct{}{}
				return nil
			},
		),
		handshake.WithQueryReplyFunc(
			func(_ handshake.CallbackContext, m protocol.ProtocolVersionMap) error {
				mu.Lock()
				defer mu.Unlock()
				out.clientQueryMap = m
				return nil
			},
		),
	)
	serverCfg := handshake.NewConfig(
		handshake.WithProtocolVersionMap(serverTable),
		handshake.WithFinishedFunc(
			func(_ handshake.CallbackContext, v uint16, _ protocol.VersionData) error {
				mu.Lock()
				defer mu.Unlock()
				out.serverFinished = true
				out.serverVersion = v
				serverDone <- struct{}{}
				return nil
			},
		),
	)
	server := handshake.NewServer(
		protocol.ProtocolOptions{
			ConnectionId: connId,
			Muxer:        muxS,
			ErrorChan:    serverErrChan,
			Mode:         mode,
			Role:         protocol.ProtocolRoleServer,
		},
		&serverCfg,
	)
	client := handshake.NewClient(
		protocol.ProtocolOptions{
			ConnectionId: connId,
			Muxer:        muxC,
			ErrorChan:    clientErrChan,
			Mode:         mode,
			Role:         protocol.ProtocolRoleClient,
		},
		&clientCfg,
	)
	server.Start()
	defer server.Stop()
	muxS.Start()
	muxC.Start()
	client.Start()
	defer client.Stop()

	// Wait for the responder to settle (deterministic)
	var serverErr, clientErr error
	clientSettled := false
	select {
	case <-serverDone:
	case serverErr = <-serverErrChan:
	case <-time.After(5 * time.Second):
		t.Fatalf("timeout waiting for responder outcome")
	}
	// Give the initiator a moment to see the responder's final message
	select {
	case <-clientDone:
		clientSettled = true
	case clientErr = <-clientErrChan:
		clientSettled = true
	case <-time.After(500 * time.Millisecond):
	}
	mu.Lock()
	defer mu.Unlock()
	out.serverErr = serverErr
	out.clientErr = clientErr
	out.clientSettled = clientSettled
	return out
}


func TestDemoC18RefusalReachesInitiator(t *testing.T) {
	all := protocol.GetProtocolVersionMap(
		protocol.ProtocolModeNodeToNode, c18Magic,
		protocol.DiffusionModeInitiatorAndResponder, false, protocol.QueryModeDisabled,
	)
	clientTable := c18Subset(all, func(v uint16) bool { return v == 13 })
	serverTable := c18Subset(all, func(v uint16) bool { return v == 14 })
	const rounds = 20
	got := 0
	for i := 0; i < rounds; i++ {
		out := c18RunHandshake(t, protocol.ProtocolModeNodeToNode, clientTable, serverTable)
		if out.clientErr != nil && strings.Contains(out.clientErr.Error(), "mismatch") {
			got++
		}
	}
	if got != rounds {
		t.Fatalf("the initiator reported the version-mismatch refusal in %d of %d handshakes", got, rounds)
	}
}
