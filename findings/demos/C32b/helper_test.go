package alonzo

import (
	"reflect"
	"runtime"
)

func runtimeFuncName(f any) string {
	return runtime.FuncForPC(reflect.ValueOf(f).Pointer()).Name()
}
