// Copy into ledger/alonzo; run: go test -count=1 -run TestDemoC32TooManyCollateralInputsAlonzo ./ledger/alonzo/
package alonzo

import "testing"

// Before the fix the Alonzo rule list contained no rule bounding the number of collateral
// inputs by the maxCollateralInputs protocol parameter.
func TestDemoC32TooManyCollateralInputsAlonzo(t *testing.T) {
	found := false
	for _, r := range UtxoValidationRules {
		if funcName(r) == "UtxoValidateTooManyCollateralInputs" {
			found = true
		}
	}
	if !found {
		t.Fatalf("Alonzo UtxoValidationRules has no rule enforcing MaxCollateralInputs")
	}
}

func funcName(f any) string {
	n := runtimeFuncName(f)
	for i := len(n) - 1; i >= 0; i-- {
		if n[i] == '.' {
			return n[i+1:]
		}
	}
	return n
}
