package pipeline_test

import (
	"context"
	"sync/atomic"
	"testing"
	"time"

	"github.com/blinklabs-io/gouroboros/internal/testdata"
	"github.com/blinklabs-io/gouroboros/ledger"
	"github.com/blinklabs-io/gouroboros/pipeline"
	pcommon "github.com/blinklabs-io/gouroboros/protocol/common"
)

func demoC43Drain(p *pipeline.BlockPipeline) {
	go func() {
		for range p.Results() {
		}
	}()
	go func() {
		for range p.Errors() {
		}
	}()
}

// Deterministic schedule: one decode worker, channel capacity 1, no validation,
// and an apply function that blocks on the first block. Blocks are submitted
// until a Submit times out on the full pipeline. In that steady state the
// accepted blocks sit in:
//   apply function (1), decoded channel (1), decode worker blocked on its
//   output (1, held by the worker), submit channel (1)
// PendingCount must report every accepted block that has not been applied.
func TestDemoC43PendingCountIncludesWorkerHeldItem(t *testing.T) {
	blockCbor := testdata.MustDecodeHex(testdata.ConwayBlockHex)
	tip := pcommon.Tip{Point: pcommon.NewPoint(1000, []byte{1, 2, 3}), BlockNumber: 1}
	release := make(chan struct{})
	var applied atomic.Int64
	p := pipeline.NewBlockPipeline(
		pipeline.WithDecodeWorkers(1),
		pipeline.WithValidateWorkers(0),
		pipeline.WithPrefetchBufferSize(1),
		pipeline.WithSkipBodyHashValidation(true),
		pipeline.WithApplyFunc(func(*pipeline.BlockItem) error {
			<-release
			applied.Add(1)
			return nil
		}),
	)
	ctx, cancel := context.WithCancel(context.Background())
	defer cancel()
	if err := p.Start(ctx); err != nil {
		t.Fatal(err)
	}
	defer p.Stop()
	demoC43Drain(p)

	accepted := 0
	full := false
	for i := 0; i < 50 && !full; i++ {
		sctx, scancel := context.WithTimeout(ctx, 300*time.Millisecond)
		err := p.Submit(sctx, uint(ledger.BlockTypeConway), blockCbor, tip)
		scancel()
		if err == nil {
			accepted++
		} else {
			full = true
		}
	}
	if !full {
		t.Fatalf("fixture problem: pipeline never filled up (accepted=%d)", accepted)
	}
	if got := p.PendingCount(); got != accepted {
		t.Errorf("PendingCount() = %d while %d accepted blocks are still unapplied (applied so far: %d)",
			got, accepted, applied.Load())
	}
	// WaitForDrain must keep waiting as long as anything is outstanding...
	wctx, wcancel := context.WithTimeout(ctx, 200*time.Millisecond)
	if err := p.WaitForDrain(wctx); err == nil {
		t.Errorf("WaitForDrain returned nil while the apply function is still blocked")
	}
	wcancel()
	// ...and report an empty pipeline once everything has been applied
	close(release)
	wctx, wcancel = context.WithTimeout(ctx, 5*time.Second)
	defer wcancel()
	if err := p.WaitForDrain(wctx); err != nil {
		t.Fatalf("WaitForDrain after release: %v", err)
	}
	if int(applied.Load()) != accepted {
		t.Errorf("WaitForDrain returned with %d of %d accepted blocks applied", applied.Load(), accepted)
	}
	if got := p.PendingCount(); got != 0 {
		t.Errorf("PendingCount() = %d after drain, want 0", got)
	}
}

// The window that makes WaitForDrain unsafe: a single accepted block that a
// decode worker has taken off the submit channel is in no channel and not yet in
// the apply stage. PendingCount()==0 must imply that the block has at least
// reached the apply function. The block is submitted and PendingCount is polled
// until the apply function starts.
func TestDemoC43PendingCountZeroWhileBlockInDecodeWorker(t *testing.T) {
	blockCbor := testdata.MustDecodeHex(testdata.ConwayBlockHex)
	tip := pcommon.Tip{Point: pcommon.NewPoint(1000, []byte{1, 2, 3}), BlockNumber: 1}
	var applyStarted atomic.Int64
	p := pipeline.NewBlockPipeline(
		pipeline.WithDecodeWorkers(1),
		pipeline.WithValidateWorkers(0),
		pipeline.WithPrefetchBufferSize(4),
		pipeline.WithSkipBodyHashValidation(true),
		pipeline.WithApplyFunc(func(*pipeline.BlockItem) error {
			applyStarted.Add(1)
			return nil
		}),
	)
	ctx, cancel := context.WithCancel(context.Background())
	defer cancel()
	if err := p.Start(ctx); err != nil {
		t.Fatal(err)
	}
	defer p.Stop()
	demoC43Drain(p)

	const rounds = 20
	violations := 0
	for r := 1; r <= rounds; r++ {
		if err := p.Submit(ctx, uint(ledger.BlockTypeConway), blockCbor, tip); err != nil {
			t.Fatal(err)
		}
		deadline := time.Now().Add(5 * time.Second)
		sawZeroEarly := false
		for {
			pending := p.PendingCount()
			started := applyStarted.Load() // read AFTER the count
			if pending == 0 && started < int64(r) {
				sawZeroEarly = true
			}
			if started >= int64(r) {
				break
			}
			if time.Now().After(deadline) {
				t.Fatalf("round %d: block never reached the apply function", r)
			}
		}
		if sawZeroEarly {
			violations++
		}
		wctx, wcancel := context.WithTimeout(ctx, 5*time.Second)
		err := p.WaitForDrain(wctx)
		wcancel()
		if err != nil {
			t.Fatalf("round %d: WaitForDrain: %v", r, err)
		}
	}
	if violations > 0 {
		t.Errorf("in %d of %d rounds PendingCount() reported 0 although the one accepted block had not yet reached the apply function (it was inside the decode worker)",
			violations, rounds)
	}
}
