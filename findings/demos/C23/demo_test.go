package blockfetch_test

import (
	"bytes"
	"testing"
	"time"

	ouroboros "github.com/blinklabs-io/gouroboros"
	"github.com/blinklabs-io/gouroboros/cbor"
	"github.com/blinklabs-io/gouroboros/ledger"
	"github.com/blinklabs-io/gouroboros/protocol"
	"github.com/blinklabs-io/gouroboros/protocol/blockfetch"
	pcommon "github.com/blinklabs-io/gouroboros/protocol/common"
	ouroboros_mock "github.com/blinklabs-io/ouroboros-mock"
)

// The client asks for the block at (slot 23456, hash ff..ff). The server sends a
// well-formed block whose hash is something else. GetBlock must not hand that
// block back as the one requested.
func TestDemoC23GetBlockWrongHash(t *testing.T) {
	servedBlock := ledger.BabbageBlock{BlockHeader: &ledger.BabbageBlockHeader{}}
	servedBlock.BlockHeader.Body.BlockNumber = 12345
	servedBlock.BlockHeader.Body.Slot = 23456
	blockCbor, err := cbor.Encode(servedBlock)
	if err != nil {
		t.Fatal(err)
	}
	if _, err := cbor.Decode(blockCbor, &servedBlock); err != nil {
		t.Fatal(err)
	}
	wrappedBlockCbor, err := cbor.Encode(blockfetch.WrappedBlock{
		Type:     ledger.BlockTypeBabbage,
		RawBlock: cbor.RawMessage(blockCbor),
	})
	if err != nil {
		t.Fatal(err)
	}
	requestedHash := bytes.Repeat([]byte{0xff}, 32)
	if bytes.Equal(requestedHash, servedBlock.Hash().Bytes()) {
		t.Fatal("fixture error: hashes coincide")
	}
	conversation := []ouroboros_mock.ConversationEntry{
		ouroboros_mock.ConversationEntryHandshakeRequestGeneric,
		ouroboros_mock.ConversationEntryHandshakeNtNResponse,
		ouroboros_mock.ConversationEntryInput{
			ProtocolId:  blockfetch.ProtocolId,
			MessageType: blockfetch.MessageTypeRequestRange,
		},
		ouroboros_mock.ConversationEntryOutput{
			ProtocolId: blockfetch.ProtocolId,
			IsResponse: true,
			Messages: []protocol.Message{
				blockfetch.NewMsgStartBatch(),
				blockfetch.NewMsgBlock(wrappedBlockCbor),
				blockfetch.NewMsgBatchDone(),
			},
		},
	}
	mockConn := ouroboros_mock.NewConnection(ouroboros_mock.ProtocolRoleClient, conversation)
	oConn, err := ouroboros.New(
		ouroboros.WithConnection(mockConn),
		ouroboros.WithNetworkMagic(ouroboros_mock.MockNetworkMagic),
		ouroboros.WithNodeToNode(true),
		ouroboros.WithBlockFetchConfig(blockfetch.Config{SkipBlockValidation: true}),
	)
	if err != nil {
		t.Fatalf("unexpected error when creating Ouroboros object: %s", err)
	}
	defer oConn.Close()
	type result struct {
		blk ledger.Block
		err error
	}
	resCh := make(chan result, 1)
	go func() {
		blk, err := oConn.BlockFetch().Client.GetBlock(pcommon.NewPoint(23456, requestedHash))
		resCh <- result{blk, err}
	}()
	select {
	case r := <-resCh:
		if r.err == nil {
			t.Fatalf("GetBlock(hash=%x) returned block with hash %s without error",
				requestedHash, r.blk.Hash())
		}
		t.Logf("GetBlock failed as required: %v", r.err)
	case <-time.After(5 * time.Second):
		t.Fatal("GetBlock did not return within 5s")
	}
}
