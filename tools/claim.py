#!/usr/bin/env python3
"""usage: claim.py ID category technique --text ... --note ...   (moves ID from not_applicable to claims and regenerates MANIFEST)"""
import json,sys,argparse,subprocess,os
here=os.path.dirname(os.path.dirname(os.path.abspath(__file__)))
ap=argparse.ArgumentParser();ap.add_argument('id');ap.add_argument('category');ap.add_argument('technique');ap.add_argument('--text',required=True);ap.add_argument('--note',required=True)
a=ap.parse_args()
p=os.path.join(here,'claims.json');c=json.load(open(p))
c['claims'][a.id]={"category":a.category,"technique":a.technique,"text":a.text,"note":a.note}
c['not_applicable'].pop(a.id,None)
json.dump(c,open(p,'w'),indent=1)
subprocess.check_call([sys.executable,os.path.join(here,'tools','genmanifest.py')])
