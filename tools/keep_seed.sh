#!/bin/bash
# usage: keep_seed.sh /tmp/seedout/C09_1   (after confirm_seed.sh says RESULT ok)
d=$1; n=$(basename $d)
grep -q "RESULT ok" $d/confirm.txt || { echo "not confirmed"; exit 1; }
mkdir -p /verif/seeded/$n
cp $d/patch.diff $d/demo_test.go /verif/seeded/$n/
python3 - <<P
import json
m=json.load(open('$d/meta.json'))
m['confirmed_by']="tools/confirm_seed.sh in a scratch worktree of /repo HEAD: patch applies, go build + go vet ok, full suite passes with patch, demo passes without patch and fails with it"
m['confirm_log']=open('$d/confirm.txt').read().splitlines()[-12:]
json.dump(m,open('/verif/seeded/$n/meta.json','w'),indent=1)
P
echo kept $n
