#!/bin/bash
# usage: par_regress.sh [nshards]
# Seeds and mutants regression in parallel: each shard works on its own scratch worktree of /repo HEAD and runs the
# already built checker with -repo. (The registered checks themselves always run on /repo; this is only the runner
# for the validation corpus, used when the sequential run_seeds.sh / run_mutants.sh would take too long.)
N=${1:-6}
export VERIF_DIR=/verif
export PATH=/opt/veriftools/go1.26.8/bin:$PATH GOTOOLCHAIN=local GOFLAGS=-mod=mod GOPROXY=off GOSUMDB=off GOWORK=off
unset GOARCH GOOS
cd /verif && ./vcheck.sh -p C35 -no-evidence >/dev/null 2>&1 # builds bin/vcheck
items=()
for n in $(ls /verif/seeded); do items+=("seed:$n"); done
for f in /verif/mutants/*.patch; do items+=("mutant:$(basename $f)"); done
run_shard() {
	k=$1
	wt=/tmp/pr_wt_$k
	git -C /repo worktree remove --force $wt >/dev/null 2>&1
	git -C /repo worktree add --detach $wt HEAD >/dev/null 2>&1 || { echo "shard $k: worktree failed"; return; }
	i=0
	for it in "${items[@]}"; do
		i=$((i + 1))
		[ $((i % N)) -eq $k ] || continue
		kind=${it%%:*}
		name=${it#*:}
		if [ $kind = seed ]; then
			d=/verif/seeded/$name
			patch=$d/patch.diff
			props=$(python3 -c "import json;m=json.load(open('$d/meta.json'));print(','.join(m.get('checks',[m['property']])))")
			expect=$(python3 -c "import json;m=json.load(open('$d/meta.json'));print(m.get('expect','caught'))")
		else
			patch=/verif/mutants/$name
			props=$(echo $name | cut -d- -f1)
			expect=caught
		fi
		git -C $wt checkout -q -- .
		git -C $wt apply $patch 2>/dev/null || { echo "$name: patch does not apply"; continue; }
		out=$(/verif/bin/vcheck -p $props -repo $wt -no-evidence 2>&1)
		rc=$?
		case "$rc:$expect" in
		1:*) echo "$name: CAUGHT by $props" ;;
		2:undecided) echo "$name: UNDECIDED by $props (expected)" ;;
		0:missed) echo "$name: MISSED by $props (documented limit)" ;;
		0:*) echo "$name: MISSED by $props" ;;
		*)
			echo "$name: rc=$rc by $props"
			echo "$out" | grep -E '^UNDECIDED' | head -2 | cut -c1-200
			;;
		esac
	done
	git -C $wt checkout -q -- .
	git -C /repo worktree remove --force $wt >/dev/null 2>&1
}
for k in $(seq 0 $((N - 1))); do run_shard $k >/tmp/pr_out_$k.txt 2>&1 & done
wait
cat /tmp/pr_out_*.txt | sort
