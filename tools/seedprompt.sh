#!/bin/bash
# usage: seedprompt.sh C13 [variant-hint]
id=$1; n=${2:-1}
wt=/tmp/seed_${id}_$n
cat <<P
You are testing how robust a Go library's guarantees are against realistic regressions. The repository is github.com/blinklabs-io/gouroboros (a Go implementation of Cardano's Ouroboros network mini-protocols, muxer and CBOR ledger types).

Create your own scratch git worktree and work ONLY there: \`git -C /repo worktree add --detach $wt HEAD\`. Never modify, commit to, or run builds inside /repo itself, and do not read anything under /verif (it is off limits). Sandbox is offline: in every shell call \`export GOFLAGS=-mod=mod\` and use the default \`go\` (do not set GOTOOLCHAIN or GOSUMDB). Run tests with e.g. \`cd $wt && go test -vet=off -count=1 ./...\` (about 1-2 minutes for everything).

Here is a semantic property the library is supposed to guarantee:

$(python3 /verif/tools/proptext.py $id)

Your task: produce ONE realistic change to the library source (non-test .go files in $wt) that BREAKS this property, such that
 1. the repository still compiles (\`go build ./...\` and \`go vet ./...\` succeed),
 2. the ENTIRE existing test suite still passes unedited (\`go test -vet=off -count=1 ./...\` in $wt, all packages ok),
 3. the breakage needs something specific to manifest — a particular interleaving, a fault at a particular point, a multi-step sequence of operations, an unusual/adversarial input, or two cooperating sites that each look fine alone — NOT something ordinary use would expose immediately,
 4. it looks like a plausible maintainer mistake or well-intentioned refactor/optimisation (a dropped or weakened check, an off-by-one, a moved statement, a lock released early, a condition inverted on a rare path, a table entry changed, a helper that re-encodes instead of reusing bytes, etc.), small (typically 1-30 changed lines), and not labelled with comments that give it away.
Also write a demonstration: a Go test file (or small program) that FAILS with your change applied and PASSES on the unmodified tree, showing concretely that the property is violated.

Deliverables, written to /tmp/seedout/${id}_$n/ (create it):
 - patch.diff : \`git -C $wt diff\` of your source change only (must apply cleanly to /repo HEAD with \`git apply\`); do NOT include the demonstration in the patch.
 - demo_test.go : the demonstration test; state at the top in a comment which package directory (relative to repo root) it must be copied into and the \`go test -run\` command.
 - meta.json : {"property": "$id", "summary": "<what was changed, one or two sentences>", "needs_to_manifest": "<what specific input/schedule/sequence is needed>", "files_changed": [...], "demo_pkg_dir": "<dir>", "demo_run": "<go test command>", "ran": ["<commands you ran and their outcome>"]}
Before finishing, verify yourself: (a) with the patch: build+vet ok, full suite passes, demo fails; (b) without the patch (save it with \`git -C $wt diff > /tmp/seedout/${id}_$n/patch.diff\`, then \`git -C $wt checkout -- .\`; re-apply with \`git -C $wt apply\`; do NOT use git stash - the stash is shared between worktrees and other agents are working in parallel): demo passes. Then remove the worktree and its build output: \`git -C /repo worktree remove --force $wt\`.
If your first idea turns out to be caught by existing tests, try a different one (up to about four attempts). Your final message should be a 3-line summary: what was changed, where, and whether all verifications succeeded.
P
