#!/usr/bin/env python3
"""Regenerates /verif/MANIFEST.json from /verif/claims.json (hand-maintained)."""
import json,sys,os
here=os.path.dirname(os.path.dirname(os.path.abspath(__file__)))
claims=json.load(open(os.path.join(here,'claims.json')))
props=[json.loads(l) for l in open(os.path.join(here,'properties.jsonl'))]
ids=[p['id'] for p in props]
checks=[];na=[]
for pid in ids:
    c=claims['claims'].get(pid)
    if c:
        checks.append({
            "property_id":pid,
            "quick_cmd":f"./vcheck.sh -p {pid} -tier quick",
            "thorough_cmd":f"./vcheck.sh -p {pid} -tier thorough",
            "evidence_file":f"/verif/evidence/{pid}.json",
            "replay_cmd_template":"cat {path}",
            "engine":"vcheck",
            "level_claimed":{"category":c.get("category","other"),"text":c["text"],"design_ref":c.get("design_ref","DESIGN.md §4 "+pid)},
            "level_note":c["note"],
            "technique":c["technique"],
        })
    else:
        r=claims['not_applicable'].get(pid)
        if not r: sys.exit(f"{pid}: neither claimed nor not_applicable")
        na.append({"property_id":pid,"reason":r})
m={
 "version":1,
 "setup_cmd":"./setup.sh",
 "hooks":{"guard":"verif","enable":"none needed: the checker analyses /repo's source as it is; no hook commits exist","baseline_off_cmd":"cd /repo && GOFLAGS=-mod=mod go test -vet=off -count=1 -timeout 25m ./...","source_commits":[],"add_only":True},
 "engines":[{"name":"vcheck","path":"/verif/checker","serves_properties":[c["property_id"] for c in checks],"kind_free_text":"repository-specific static analyser (go/packages + go/types + go/ssa + call graph, x/tools v0.50.0); loads /repo's current source on every run, never executes it"}],
 "checks":checks,
 "notes":claims.get("notes",""),
 "not_applicable":na,
}
json.dump(m,open(os.path.join(here,'MANIFEST.json'),'w'),indent=1)
print(f"claimed {len(checks)} not_applicable {len(na)}")
