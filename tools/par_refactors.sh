#!/bin/bash
# usage: [PROPS=C09,C10] par_refactors.sh [nshards]
# Behaviour-preserving refactor corpus in parallel: each shard applies the refactors to its own scratch worktree of
# /repo HEAD and runs the already built checker (all 46 checks, or $PROPS) with -repo; expected SILENT everywhere.
N=${1:-6}
P=${PROPS:-all}
export VERIF_DIR=/verif
export PATH=/opt/veriftools/go1.26.8/bin:$PATH GOTOOLCHAIN=local GOFLAGS=-mod=mod GOPROXY=off GOSUMDB=off GOWORK=off
unset GOARCH GOOS
cd /verif && ./vcheck.sh -p C35 -no-evidence >/dev/null 2>&1 # builds bin/vcheck
items=($(ls /verif/refactors))
run_shard() {
	k=$1
	wt=/tmp/prf_wt_$k
	git -C /repo worktree remove --force $wt >/dev/null 2>&1
	git -C /repo worktree add --detach $wt HEAD >/dev/null 2>&1 || { echo "shard $k: worktree failed"; return; }
	i=0
	for n in "${items[@]}"; do
		i=$((i + 1))
		[ $((i % N)) -eq $k ] || continue
		git -C $wt checkout -q -- .
		git -C $wt apply /verif/refactors/$n/patch.diff 2>/dev/null || { echo "$n: patch does not apply"; continue; }
		out=$(/verif/bin/vcheck -p $P -repo $wt -no-evidence 2>&1)
		rc=$?
		case $rc in
		0) echo "$n: SILENT ($P)" ;;
		1)
			echo "$n: ALARM from $P"
			echo "$out" | grep -E "^VIOLATION|violation:" | head -6 | cut -c1-260 | sed 's/^/      /'
			;;
		*)
			echo "$n: UNDECIDED rc=$rc"
			echo "$out" | grep -E "^UNDECIDED" | head -3 | cut -c1-220
			;;
		esac
	done
	git -C $wt checkout -q -- .
	git -C /repo worktree remove --force $wt >/dev/null 2>&1
}
for k in $(seq 0 $((N - 1))); do run_shard $k >/tmp/prf_out_$k.txt 2>&1 & done
wait
cat /tmp/prf_out_*.txt | sort
