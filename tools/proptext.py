#!/usr/bin/env python3
import json,sys
pid=sys.argv[1]
for l in open('/verif/properties.jsonl'):
    p=json.loads(l)
    if p['id']==pid:
        print("ID:",p['id']); print("Title:",p['title']); print("Statement:",p['statement'])
        print("Quantifier:",p['quantifier']['text'])
        print("Why tests cannot settle it:",p['why_tests_cant'])
        print("Relevant files:",", ".join(p['anchors']['files']))
        print("Mechanisms meant to make it hold:")
        for m in p['anchors']['mechanism']: print("  -",m.get('name'),'@',m.get('where'))
