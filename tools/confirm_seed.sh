#!/bin/bash
# usage: confirm_seed.sh <seed dir with patch.diff demo_test.go meta.json>
# Confirms in a scratch worktree: patch applies, builds, vets, full suite passes, demo fails with patch and passes without.
d=$1; name=$(basename $d); wt=/tmp/confirm_$name
export GOFLAGS=-mod=mod
log=$d/confirm.txt; : > $log
git -C /repo worktree remove --force $wt >/dev/null 2>&1
git -C /repo worktree add --detach $wt HEAD >/dev/null 2>&1 || { echo "worktree failed" >>$log; exit 1; }
pkgdir=$(python3 -c "import json;print(json.load(open('$d/meta.json'))['demo_pkg_dir'])")
cd $wt
demo=$pkgdir/zz_seed_demo_test.go
res=ok
cp $d/demo_test.go $demo
runline=$(python3 -c "import json;print(json.load(open('$d/meta.json'))['demo_run'])")
runpat=$(echo "$runline" | grep -o '\-run[ =][^ ]*' | head -1 | sed 's/-run[ =]//' | tr -d "'\"")
[ -z "$runpat" ] && runpat=.
echo "demo: pkg=$pkgdir run=$runpat" >>$log
if go test -vet=off -count=1 -run "$runpat" ./$pkgdir/ >>$log 2>&1; then echo "UNPATCHED demo: pass (good)" >>$log; else echo "UNPATCHED demo: FAIL (bad)" >>$log; res=bad; fi
rm -f $demo
if git apply $d/patch.diff 2>>$log; then echo "patch applies" >>$log; else echo "PATCH DOES NOT APPLY" >>$log; res=bad; fi
go build ./... >>$log 2>&1 && echo "build ok" >>$log || { echo "BUILD FAILS" >>$log; res=bad; }
go vet ./... >>$log 2>&1 && echo "vet ok" >>$log || { echo "VET FAILS" >>$log; res=bad; }
if go test -vet=off -count=1 ./... > $d/suite.log 2>&1; then echo "suite passes with patch (good)" >>$log; else
  # timing-sensitive packages can flake when the machine is loaded: re-run only the failed packages, alone
  failed=$(grep '^FAIL\s' $d/suite.log | awk '{print $2}' | grep blinklabs | sort -u)
  if [ -n "$failed" ] && go test -vet=off -count=1 -p 1 $failed > $d/suite_retry.log 2>&1; then echo "suite passes with patch after re-running flaky packages alone: $failed (good)" >>$log;
  else echo "SUITE FAILS with patch (bad)" >>$log; grep -v '^ok\|no test files' $d/suite.log | head -20 >>$log; res=bad; fi
fi
cp $d/demo_test.go $demo
if go test -vet=off -count=1 -run "$runpat" ./$pkgdir/ > $d/demo_patched.log 2>&1; then echo "PATCHED demo: PASS (bad)" >>$log; res=bad; else echo "PATCHED demo: fails (good)" >>$log; tail -5 $d/demo_patched.log >>$log; fi
cd /; git -C /repo worktree remove --force $wt >/dev/null 2>&1
echo "RESULT $res" >>$log
tail -1 $log
