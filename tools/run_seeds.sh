#!/bin/bash
# usage: run_seeds.sh [seed-name ...]   (default: all under /verif/seeded)
# Applies each seeded patch to /repo, runs the quick checks named in its meta.json ("checks", default: its property), expects a VIOLATION, and reverts.
cd /verif
names="$@"; [ -z "$names" ] && names=$(ls seeded)
trap 'git -C /repo checkout -- . 2>/dev/null' EXIT
for n in $names; do
  d=seeded/$n
  [ -f $d/patch.diff ] || continue
  if [ -n "$(git -C /repo status --porcelain --untracked-files=no)" ]; then echo "repo dirty, abort"; exit 2; fi
  props=$(python3 -c "import json;m=json.load(open('$d/meta.json'));print(','.join(m.get('checks',[m['property']])))")
  git -C /repo apply /verif/$d/patch.diff || { echo "$n: patch does not apply"; continue; }
  out=$(./vcheck.sh -p $props -no-evidence 2>&1); rc=$?
  git -C /repo checkout -- .
  if [ $rc -eq 1 ]; then echo "$n: CAUGHT by $props"; echo "$out" | grep "violation:" | head -3 | sed 's/^/      /';
  elif [ $rc -eq 0 ] && grep -q '"expect": "missed"' $d/meta.json; then echo "$n: MISSED by $props (documented limit, DESIGN 7)";
  elif [ $rc -eq 0 ]; then echo "$n: MISSED by $props";
  elif [ $rc -eq 2 ] && grep -q '"expect": "undecided"' $d/meta.json; then echo "$n: UNDECIDED by $props (expected: shape not derived for; not passed as green)";
  else echo "$n: checker undecided/error rc=$rc"; echo "$out" | tail -3; fi
done
