#!/bin/bash
# usage: keep_refactor.sh C15_1 ...  -- confirm a sub-agent's behaviour-preserving refactor (applies to HEAD, builds, vets, touched packages' tests pass) and keep it under /verif/refactors
export GOFLAGS=-mod=mod
for n in "$@"; do
  src=/tmp/refout/$n
  [ -f $src/patch.diff ] || { echo "$n: no patch"; continue; }
  wt=/tmp/rk_$n
  git -C /repo worktree add --detach $wt HEAD >/dev/null 2>&1 || { echo "$n: worktree failed"; continue; }
  ok=1
  git -C $wt apply $src/patch.diff || ok=0
  if [ $ok = 1 ]; then
    pk=$(git -C $wt diff --name-only | xargs -n1 dirname | sort -u | sed 's|^|./|')
    (cd $wt && go build ./... && go vet $pk >/dev/null 2>&1 && go test -vet=off -count=1 $pk 2>&1 | grep -v "^ok\|no test files" | head -5) > /tmp/rk_$n.log 2>&1
    [ -s /tmp/rk_$n.log ] && { ok=0; cat /tmp/rk_$n.log; }
  fi
  git -C /repo worktree remove --force $wt
  rm -f /tmp/rk_$n.log
  if [ $ok = 1 ]; then mkdir -p /verif/refactors/$n; cp $src/patch.diff $src/meta.json /verif/refactors/$n/; echo "$n: kept ($(grep -c '^[-+][^-+]' $src/patch.diff) changed lines)"; else echo "$n: REJECTED"; fi
done
