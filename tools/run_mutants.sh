#!/bin/bash
# Applies each hand-written mutant /verif/mutants/<PROP>-<name>.patch to /repo, runs that property's quick check, expects exit 1, reverts.
cd /verif
trap 'git -C /repo checkout -- . 2>/dev/null' EXIT
for f in ${@:-mutants/*.patch}; do
  prop=$(basename $f | cut -d- -f1)
  [ -n "$(git -C /repo status --porcelain --untracked-files=no)" ] && { echo "repo dirty"; exit 2; }
  git -C /repo apply /verif/$f || { echo "$f: does not apply"; continue; }
  (cd /repo && GOFLAGS=-mod=mod go build ./... 2>&1 | head -3)
  out=$(./vcheck.sh -p $prop -no-evidence 2>&1); rc=$?
  git -C /repo checkout -- .
  case $rc in 1) echo "$(basename $f): CAUGHT"; echo "$out" | grep "violation:" | head -1 | cut -c1-220 | sed 's/^/     /';; 0) echo "$(basename $f): MISSED";; *) echo "$(basename $f): rc=$rc"; echo "$out" | tail -2;; esac
done
