#!/usr/bin/env python3
"""Freeze per-rule instance floors from the evidence of a green run: audit/floors.json.
floor = 1 for counts below 40 (non-vacuity only: a refactor that merges duplicated sites into a helper must not trip it), a quarter of the count from 40 up (table-driven rules)."""
import json,glob,os,math
here=os.path.dirname(os.path.dirname(os.path.abspath(__file__)))
out={}
for f in sorted(glob.glob(os.path.join(here,'evidence','C*.json'))):
    e=json.load(open(f)); pid=e['property_id']
    rules=e['coverage'].get('rules',{})
    fl={}
    for r,v in rules.items():
        n=v['instances']
        if n<=0: continue
        fl[r]= 1 if n<40 else n//4
    out[pid]=fl
json.dump(out,open(os.path.join(here,'audit','floors.json'),'w'),indent=1,sort_keys=True)
print(sum(len(v) for v in out.values()),'rule floors for',len(out),'properties')
