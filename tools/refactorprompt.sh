#!/bin/bash
# usage: refactorprompt.sh C13 [n]   -> prompt for a sub-agent producing a BEHAVIOUR-PRESERVING refactor of the code a property is anchored in
id=$1; n=${2:-1}
wt=/tmp/refac_${id}_$n
cat <<P
You are helping to test that a set of code checkers does not raise false alarms. The repository is github.com/blinklabs-io/gouroboros (a Go implementation of Cardano's Ouroboros network mini-protocols, muxer and CBOR ledger types).

Create your own scratch git worktree and work ONLY there: \`git -C /repo worktree add --detach $wt HEAD\`. Never modify, commit to, or run builds inside /repo itself, and do not read anything under /verif (it is off limits). Sandbox is offline: in every shell call \`export GOFLAGS=-mod=mod\` and use the default \`go\` (do not set GOTOOLCHAIN or GOSUMDB). Run tests with e.g. \`cd $wt && go test -vet=off -count=1 ./...\` (about 1-2 minutes for everything).

Here is a semantic property the library guarantees today:

$(python3 /verif/tools/proptext.py $id)

Your task: produce ONE realistic, BEHAVIOUR-PRESERVING refactoring of the library source (non-test .go files in $wt) that touches the code named under "Mechanisms meant to make it hold" / "Relevant files" — the kind of clean-up a maintainer would merge — such that the property STILL HOLDS exactly as before for every input, schedule and history. Good examples: rename local variables and parameters; extract a block into a small helper function (or inline a small helper); turn an if/else-if chain into a switch (or the reverse); invert a condition and swap its branches; replace early returns by a single result variable (or the reverse); reorder statements that do not depend on each other; replace a manual loop by slices/maps helpers with identical semantics; hoist a repeated expression into a local; change \`x >= y\` into \`!(x < y)\` or \`y <= x\`; replace an append chain by slices.Concat. Combine two or three of these in the same functions (30-120 changed lines in total). Do NOT change behaviour in any case, not even for edge inputs, and do not weaken or remove any check, lock, guard or bound.
Requirements: (1) \`go build ./...\` and \`go vet ./...\` succeed; (2) the ENTIRE existing test suite passes unedited; (3) you have re-read your diff and are confident behaviour is identical (say why for each hunk).

Deliverables, written to /tmp/refout/${id}_$n/ (create it):
 - patch.diff : \`git -C $wt diff\` (must apply cleanly to /repo HEAD with \`git apply\`)
 - meta.json : {"property": "$id", "summary": "<what was refactored, 2-4 sentences>", "why_equivalent": "<per hunk, why behaviour is unchanged>", "files_changed": [...], "ran": ["<commands and outcomes>"]}
Do NOT use git stash (it is shared between worktrees and other agents work in parallel). When done remove the worktree: \`git -C /repo worktree remove --force $wt\`. Your final message: a 3-line summary.
P
