#!/bin/bash
# usage: run_refactors.sh [name ...]  (default: all under /verif/refactors)
# Applies each behaviour-preserving refactor to /repo, runs the quick check(s) of its property (meta.checks or property), expects exit 0, reverts.
cd /verif
names="$@"; [ -z "$names" ] && names=$(ls refactors)
trap 'git -C /repo checkout -- . 2>/dev/null' EXIT
for n in $names; do
  d=refactors/$n
  [ -f $d/patch.diff ] || continue
  if [ -n "$(git -C /repo status --porcelain --untracked-files=no)" ]; then echo "repo dirty, abort"; exit 2; fi
  props=$(python3 -c "import json;m=json.load(open('$d/meta.json'));print(','.join(m.get('checks',[m['property']])))")
  [ -n "$ALL" ] && props=all
  [ -n "$PROPS" ] && props=$PROPS
  git -C /repo apply /verif/$d/patch.diff || { echo "$n: patch does not apply"; continue; }
  out=$(./vcheck.sh -p $props -no-evidence 2>&1); rc=$?
  git -C /repo checkout -- .
  if [ $rc -eq 0 ]; then echo "$n: SILENT ($props)";
  elif [ $rc -eq 1 ]; then echo "$n: ALARM from $props"; echo "$out" | grep -E "^VIOLATION|violation:" | head -8 | cut -c1-300 | sed 's/^/      /';
  else echo "$n: UNDECIDED rc=$rc"; echo "$out" | grep -E "^UNDECIDED|^VIOLATION" | head -6 | cut -c1-300; fi
done
