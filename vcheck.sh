#!/bin/bash
# Builds (if needed) and runs the checker against /repo's current working tree.
set -e
here="$(cd "$(dirname "$0")" && pwd)"
export PATH=/opt/veriftools/go1.26.8/bin:$PATH GOTOOLCHAIN=local GOFLAGS=-mod=mod GOPROXY=off GOSUMDB=off GOWORK=off
unset GOARCH GOOS
mkdir -p "$here/bin"
(cd "$here/checker" && go build -o "$here/bin/vcheck" .) || { echo "UNDECIDED: checker build failed"; exit 2; }
export VERIF_DIR="$here"
exec "$here/bin/vcheck" "$@"
